"""E3: reference interpreter for F-lite with access tracing.

Independent of PSyIR and fparser: it interprets the *source* AST with Fortran
semantics (truncating integer division, MOD sign, DO trip count fixed at
entry, array-assignment RHS-before-LHS, WHERE mask-first, by-reference
argument association).  Validated against gfortran by the checks on every
case (disagreement => the case is inconclusive, never a verdict).
"""
import math


class Trap(Exception):
    """A run-time error gfortran -fcheck=all would also report (bounds,
    division by zero) or a generator fault (uninitialised read)."""


class Poison(Exception):
    """A poisoned (not-provided) location was read."""
    def __init__(self, cell):
        super().__init__("read of poisoned %s%s" % (cell.name, cell.idx))
        self.cell = cell


class _Exit(Exception):
    pass


class _Cycle(Exception):
    pass


class _Return(Exception):
    pass


POISON = object()


class Cell:
    __slots__ = ("v", "name", "idx", "ty")

    def __init__(self, v, name, idx=(), ty="i"):
        self.v = v
        self.name = name
        self.idx = idx
        self.ty = ty


class Arr:
    """Array object: bounds [(lo,hi)...], cells in column-major order."""
    __slots__ = ("name", "bounds", "cells", "ty")

    def __init__(self, name, bounds, cells, ty):
        self.name = name
        self.bounds = bounds
        self.cells = cells
        self.ty = ty

    @property
    def shape(self):
        return tuple(max(0, hi - lo + 1) for lo, hi in self.bounds)

    def offset(self, idx):
        off = 0
        mul = 1
        for (lo, hi), i in zip(self.bounds, idx):
            if i < lo or i > hi:
                raise Trap("index %d of '%s' outside %d:%d" % (
                    i, self.name, lo, hi))
            off += (i - lo) * mul
            mul *= max(0, hi - lo + 1)
        return off

    def cell(self, idx):
        return self.cells[self.offset(idx)]


class ArrV:
    """Array value (shape, column-major values)."""
    __slots__ = ("shape", "vals")

    def __init__(self, shape, vals):
        self.shape = tuple(shape)
        self.vals = vals


def new_array(name, bounds, ty, fill=None):
    n = 1
    for lo, hi in bounds:
        n *= max(0, hi - lo + 1)
    cells = []
    idxs = list(all_indices(bounds))
    for k in range(n):
        cells.append(Cell(fill, name, idxs[k], ty))
    return Arr(name, list(bounds), cells, ty)


def all_indices(bounds):
    """Column-major enumeration of index tuples."""
    if not bounds:
        yield ()
        return
    ranges = [range(lo, hi + 1) for lo, hi in bounds]
    if any(len(r) == 0 for r in ranges):
        return
    idx = [r[0] for r in ranges]
    while True:
        yield tuple(idx)
        d = 0
        while d < len(ranges):
            if idx[d] < ranges[d][-1]:
                idx[d] += 1
                break
            idx[d] = ranges[d][0]
            d += 1
        if d == len(ranges):
            return


def tdiv(a, b):
    if b == 0:
        raise Trap("integer division by zero")
    q = abs(a) // abs(b)
    return q if (a >= 0) == (b >= 0) else -q


class Tracer:
    """Default tracer: records nothing."""
    def read(self, cell):
        pass

    def write(self, cell):
        pass

    def stmt(self, stmt, phase):
        pass

    def iteration(self, loop, k, value):
        pass


class Interp:
    def __init__(self, unit, tracer=None, max_steps=2_000_000):
        self.unit = unit
        self.routines = {r["name"].lower(): r for r in unit["routines"]}
        self.tr = tracer or Tracer()
        self.steps = 0
        self.max_steps = max_steps
        self.out = []
        self.mod_frame = {}
        self.frames = []          # frame stack (innermost last)
        self.loop_override = {}   # id(loop stmt) -> handler(interp, s, fr)

    # ------------------------------------------------------------ frames
    def make_locals(self, routine, frame):
        """Allocate non-dummy declarations (after dummies are bound)."""
        # imports from data-only modules: shared cells, created once
        for u in routine.get("uses", []) if routine.get(
                "kind") != "program" else []:
            mname, _, only = u.partition(",")
            names = [x.strip().lower() for x in
                     only.split(":", 1)[1].split(",")] if ":" in only else None
            for em in self.unit.get("extra_modules", []):
                if em["name"].lower() != mname.strip().lower():
                    continue
                store = self.__dict__.setdefault("_modvars", {}).setdefault(
                    em["name"].lower(), {})
                if not store:
                    fake = {"decls": em["decls"], "kind": "module"}
                    self.make_locals(fake, store)
                for nm, cell in store.items():
                    if (names is None or nm in names) and nm not in frame:
                        frame[nm] = cell
        for d in routine["decls"]:
            nm = d["name"].lower()
            if nm in frame:
                continue
            if d.get("param") is not None:
                frame[nm] = Cell(self.ev(d["param"], frame), nm, (), d["ty"])
                continue
            if d["dims"]:
                bounds = []
                for lo, hi in d["dims"]:
                    bounds.append((self.bound(lo, frame, 1),
                                   self.bound(hi, frame, None)))
                frame[nm] = new_array(nm, bounds, d["ty"], None)
            else:
                frame[nm] = Cell(None, nm, (), d["ty"])

    def bound(self, b, frame, default):
        if b is None:
            return default
        if isinstance(b, int):
            return b
        if isinstance(b, str):
            return self.rd(frame[b.lower()])
        return self.ev(b, frame)

    # ------------------------------------------------------------- access
    def rd(self, cell):
        self.tr.read(cell)
        v = cell.v
        if v is POISON:
            raise Poison(cell)
        if v is None:
            raise Trap("read of uninitialised %s%s" % (cell.name, cell.idx))
        return v

    def wr(self, cell, v):
        self.tr.write(cell)
        if cell.ty == "i" and not isinstance(v, bool):
            v = int(v)
        elif cell.ty == "r":
            v = float(v)
            if v != v or v in (math.inf, -math.inf):
                raise Trap("floating-point overflow/invalid")
        cell.v = v

    # -------------------------------------------------------- expressions
    def ev(self, e, fr):
        """Value of an expression: python scalar or ArrV."""
        t = e[0]
        if t == "lit":
            return e[1]
        if t == "var":
            obj = fr[e[1].lower()]
            if isinstance(obj, Arr):
                return ArrV(obj.shape, [self.rd(c) for c in obj.cells])
            return self.rd(obj)
        if t == "arr":
            cells, shape = self.designate(e, fr)
            if shape is None:
                return self.rd(cells[0])
            return ArrV(shape, [self.rd(c) for c in cells])
        if t == "bin":
            return self.elemental2(e[1], self.ev(e[2], fr), self.ev(e[3], fr))
        if t == "neg":
            a = self.ev(e[1], fr)
            if isinstance(a, ArrV):
                return ArrV(a.shape, [-x for x in a.vals])
            return -a
        if t == "cmp":
            return self.elemental2(e[1], self.ev(e[2], fr), self.ev(e[3], fr))
        if t == "log":
            # Fortran does not guarantee short-circuit; generated operands
            # have no side effects, so evaluate both.
            return self.elemental2(e[1], self.ev(e[2], fr), self.ev(e[3], fr))
        if t == "not":
            a = self.ev(e[1], fr)
            if isinstance(a, ArrV):
                return ArrV(a.shape, [not x for x in a.vals])
            return not a
        if t == "icall":
            return self.intrinsic(e, fr)
        if t == "fcall":
            return self.call_routine(e[1], e[2], fr, want_result=True)
        raise ValueError("expr %r" % (e,))

    @staticmethod
    def scalar_op(op, a, b):
        try:
            r = Interp._scalar_op(op, a, b)
        except OverflowError:
            raise Trap("floating-point overflow")
        if isinstance(r, int) and not isinstance(r, bool) and \
                abs(r) > 2147483647:
            raise Trap("integer overflow")
        return r

    @staticmethod
    def _scalar_op(op, a, b):
        if op == "+":
            return a + b
        if op == "-":
            return a - b
        if op == "*":
            return a * b
        if op == "/":
            if isinstance(a, int) and isinstance(b, int):
                return tdiv(a, b)
            if b == 0:
                raise Trap("real division by zero")
            return a / b
        if op == "**":
            if isinstance(b, int) and b < 0 and isinstance(a, int):
                if a == 0:
                    raise Trap("0**negative")
                return tdiv(1, a ** (-b))
            if isinstance(b, int) and b < 0:
                return 1.0 / (a ** (-b))
            return a ** b
        if op == "==":
            return a == b
        if op == "/=":
            return a != b
        if op == "<":
            return a < b
        if op == "<=":
            return a <= b
        if op == ">":
            return a > b
        if op == ">=":
            return a >= b
        if op == ".and.":
            return bool(a) and bool(b)
        if op == ".or.":
            return bool(a) or bool(b)
        raise ValueError(op)

    def elemental2(self, op, a, b):
        aa = isinstance(a, ArrV)
        ba = isinstance(b, ArrV)
        if not aa and not ba:
            return self.scalar_op(op, a, b)
        if aa and ba:
            if a.shape != b.shape:
                raise Trap("non-conformable shapes %s %s" % (a.shape,
                                                             b.shape))
            return ArrV(a.shape, [self.scalar_op(op, x, y)
                                  for x, y in zip(a.vals, b.vals)])
        if aa:
            return ArrV(a.shape, [self.scalar_op(op, x, b) for x in a.vals])
        return ArrV(b.shape, [self.scalar_op(op, a, y) for y in b.vals])

    def designate(self, e, fr):
        """Cells designated by a variable / array reference.
        Returns (cells, shape) with shape None for a scalar designator."""
        if e[0] == "var":
            obj = fr[e[1].lower()]
            if isinstance(obj, Arr):
                return obj.cells, obj.shape
            return [obj], None
        obj = fr[e[1].lower()]
        if not isinstance(obj, Arr):
            raise Trap("'%s' is not an array" % e[1])
        subs = e[2]
        if len(subs) != len(obj.bounds):
            raise Trap("rank mismatch for '%s'" % e[1])
        lists = []
        shape = []
        for s, (lo, hi) in zip(subs, obj.bounds):
            if s[0] == "rng":
                a = self.ev(s[1], fr) if s[1] is not None else lo
                b = self.ev(s[2], fr) if s[2] is not None else hi
                st = self.ev(s[3], fr) if s[3] is not None else 1
                if st == 0:
                    raise Trap("zero stride")
                idxs = list(range(a, b + (1 if st > 0 else -1), st))
                lists.append(idxs)
                shape.append(len(idxs))
            else:
                v = self.ev(s, fr)
                if isinstance(v, ArrV):
                    raise Trap("vector subscript not supported")
                if v < lo or v > hi:
                    raise Trap("index %d of '%s' outside %d:%d" % (
                        v, obj.name, lo, hi))
                lists.append([v])
        if not shape:
            return [obj.cell(tuple(l[0] for l in lists))], None
        cells = []
        # column-major over the section
        def rec(d, idx):
            if d < 0:
                cells.append(obj.cell(tuple(idx)))
                return
            for v in lists[d]:
                idx[d] = v
                rec(d - 1, idx)
        idx = [0] * len(lists)
        if all(len(l) > 0 for l in lists):
            rec(len(lists) - 1, idx)
        return cells, tuple(shape)

    # --------------------------------------------------------- intrinsics
    def intrinsic(self, e, fr):
        name = e[1].upper()
        kw = e[3] or {}
        if name in ("SIZE", "LBOUND", "UBOUND"):
            a = e[2][0]
            if a[0] == "var":
                obj = fr[a[1].lower()]
                bounds = obj.bounds
            else:
                _, shape = self.designate_shape_only(a, fr)
                bounds = [(1, s) for s in shape]
            dim = e[2][1] if len(e[2]) > 1 else kw.get("dim")
            if dim is None:
                if name == "SIZE":
                    n = 1
                    for lo, hi in bounds:
                        n *= max(0, hi - lo + 1)
                    return n
                vals = [(lo if name == "LBOUND" else hi) for lo, hi in bounds]
                return ArrV((len(vals),), vals)
            d = self.ev(dim, fr)
            lo, hi = bounds[d - 1]
            if name == "SIZE":
                return max(0, hi - lo + 1)
            if hi < lo:
                return 1 if name == "LBOUND" else 0
            return lo if name == "LBOUND" else hi
        args = [self.ev(a, fr) for a in e[2]]
        kwv = {k: self.ev(v, fr) for k, v in kw.items()}
        if name in ("SUM", "PRODUCT", "MINVAL", "MAXVAL"):
            arr = args[0]
            dim = args[1] if len(args) > 1 and not isinstance(
                args[1], ArrV) and not isinstance(args[1], bool) else \
                kwv.get("dim")
            mask = kwv.get("mask")
            if len(args) > 1 and (isinstance(args[1], ArrV) or
                                  isinstance(args[1], bool)):
                mask = args[1]
            if len(args) > 2:
                mask = args[2]
            return self.reduce(name, arr, dim, mask)
        if name == "DOT_PRODUCT":
            a, b = args
            if a.shape != b.shape:
                raise Trap("dot_product shapes")
            s = 0 if all(isinstance(x, int) for x in a.vals + b.vals) else 0.0
            for x, y in zip(a.vals, b.vals):
                s = s + x * y
            return s
        if name == "MATMUL":
            return self.matmul(args[0], args[1])
        if name == "MERGE":
            return self.elemental3(lambda t, f, m: t if m else f, *args)
        if name == "ABS":
            return self.elemental1(abs, args[0])
        if name == "SIGN":
            def fsign(a, b):
                if isinstance(b, float):
                    return abs(a) if math.copysign(1.0, b) > 0 else -abs(a)
                return abs(a) if b >= 0 else -abs(a)
            return self.elemental2f(fsign, args[0], args[1])
        if name == "MOD":
            def fmod(a, p):
                if isinstance(a, int) and isinstance(p, int):
                    if p == 0:
                        raise Trap("mod by zero")
                    return a - tdiv(a, p) * p
                if p == 0:
                    raise Trap("mod by zero")
                return math.fmod(a, p)
            return self.elemental2f(fmod, args[0], args[1])
        if name in ("MIN", "MAX"):
            f = min if name == "MIN" else max
            res = args[0]
            for a in args[1:]:
                res = self.elemental2f(f, res, a)
            return res
        if name == "REAL":
            return self.elemental1(float, args[0])
        if name == "INT":
            return self.elemental1(lambda x: int(x), args[0])   # truncates
        if name == "NINT":
            return self.elemental1(
                lambda x: int(math.floor(x + 0.5)) if x >= 0
                else -int(math.floor(-x + 0.5)), args[0])
        raise ValueError("intrinsic " + name)

    def designate_shape_only(self, a, fr):
        cells, shape = self.designate_noread(a, fr)
        return cells, shape if shape is not None else ()

    def designate_noread(self, a, fr):
        return self.designate(a, fr)

    @staticmethod
    def elemental1(f, a):
        if isinstance(a, ArrV):
            return ArrV(a.shape, [f(x) for x in a.vals])
        return f(a)

    def elemental2f(self, f, a, b):
        aa = isinstance(a, ArrV)
        ba = isinstance(b, ArrV)
        if not aa and not ba:
            return f(a, b)
        if aa and ba:
            if a.shape != b.shape:
                raise Trap("non-conformable")
            return ArrV(a.shape, [f(x, y) for x, y in zip(a.vals, b.vals)])
        if aa:
            return ArrV(a.shape, [f(x, b) for x in a.vals])
        return ArrV(b.shape, [f(a, y) for y in b.vals])

    def elemental3(self, f, t, fv, m):
        shape = None
        for x in (t, fv, m):
            if isinstance(x, ArrV):
                shape = x.shape
        if shape is None:
            return f(t, fv, m)
        n = 1
        for s in shape:
            n *= s

        def g(x, k):
            return x.vals[k] if isinstance(x, ArrV) else x
        return ArrV(shape, [f(g(t, k), g(fv, k), g(m, k)) for k in range(n)])

    def reduce(self, name, arr, dim, mask):
        if not isinstance(arr, ArrV):
            raise Trap("reduction of a scalar")
        isint = all(isinstance(x, int) and not isinstance(x, bool)
                    for x in arr.vals) and True
        n = len(arr.vals)
        if isinstance(mask, ArrV):
            mvals = mask.vals
        elif mask is None:
            mvals = [True] * n
        else:
            mvals = [bool(mask)] * n

        def red(vals, ty_int):
            if name == "SUM":
                s = 0 if ty_int else 0.0
                for v in vals:
                    s = s + v
                return s
            if name == "PRODUCT":
                s = 1 if ty_int else 1.0
                for v in vals:
                    s = s * v
                return s
            if name == "MINVAL":
                if not vals:
                    return 2147483647 if ty_int else 1.7976931348623157e308
                return min(vals)
            if not vals:
                return -2147483648 if ty_int else -1.7976931348623157e308
            return max(vals)
        # element type: decided by the array even when empty
        ty_int = isint if n else getattr(self, "_empty_int", True)
        if dim is None:
            return red([v for v, m in zip(arr.vals, mvals) if m], ty_int)
        if len(arr.shape) == 1:
            return red([v for v, m in zip(arr.vals, mvals) if m], ty_int)
        n1, n2 = arr.shape
        out = []
        if dim == 1:
            for j in range(n2):
                out.append(red([arr.vals[i + j * n1] for i in range(n1)
                                if mvals[i + j * n1]], ty_int))
            return ArrV((n2,), out)
        for i in range(n1):
            out.append(red([arr.vals[i + j * n1] for j in range(n2)
                            if mvals[i + j * n1]], ty_int))
        return ArrV((n1,), out)

    @staticmethod
    def matmul(a, b):
        if len(a.shape) == 2 and len(b.shape) == 1:
            n, m = a.shape
            if b.shape[0] != m:
                raise Trap("matmul shapes")
            out = []
            for i in range(n):
                s = 0 if isinstance(a.vals[0] if a.vals else 0, int) and \
                    isinstance(b.vals[0] if b.vals else 0, int) else 0.0
                for k in range(m):
                    s = s + a.vals[i + k * n] * b.vals[k]
                out.append(s)
            return ArrV((n,), out)
        if len(a.shape) == 2 and len(b.shape) == 2:
            n, m = a.shape
            m2, p = b.shape
            if m != m2:
                raise Trap("matmul shapes")
            out = [0] * (n * p)
            for j in range(p):
                for i in range(n):
                    s = 0 if isinstance(a.vals[0] if a.vals else 0, int) and \
                        isinstance(b.vals[0] if b.vals else 0, int) else 0.0
                    for k in range(m):
                        s = s + a.vals[i + k * n] * b.vals[k + j * m]
                    out[i + j * n] = s
            return ArrV((n, p), out)
        raise Trap("matmul rank")

    # ----------------------------------------------------------- statements
    def tick(self):
        self.steps += 1
        if self.steps > self.max_steps:
            raise Trap("step limit")

    def run_body(self, body, fr):
        for s in body:
            self.exec_stmt(s, fr)

    def exec_stmt(self, s, fr):
        self.tick()
        t = s[0]
        self.tr.stmt(s, 0)
        try:
            if t == "assign":
                self.assign(s[1], s[2], fr)
            elif t == "do":
                self.do_loop(s, fr)
            elif t == "if":
                done = False
                for cond, b in s[1]:
                    if self.ev(cond, fr):
                        self.tr.stmt(s, 2)
                        self.run_body(b, fr)
                        done = True
                        break
                if not done and s[2] is not None:
                    self.tr.stmt(s, 2)
                    self.run_body(s[2], fr)
            elif t == "select":
                v = self.ev(s[1], fr)
                self.tr.stmt(s, 2)
                hit = None
                for items, b in s[2]:
                    for it in items:
                        if it[0] == "v":
                            if self.ev(it[1], fr) == v:
                                hit = b
                        else:
                            lo = self.ev(it[1], fr) if it[1] is not None \
                                else None
                            hi = self.ev(it[2], fr) if it[2] is not None \
                                else None
                            if (lo is None or v >= lo) and \
                                    (hi is None or v <= hi):
                                hit = b
                        if hit is not None:
                            break
                    if hit is not None:
                        break
                if hit is None:
                    hit = s[3]
                if hit is not None:
                    self.run_body(hit, fr)
            elif t == "where":
                self.where(s, fr)
            elif t == "call":
                self.call_routine(s[1], s[2], fr, want_result=False)
            elif t == "icallsub":
                self.intrinsic_sub(s, fr)
            elif t == "verb":
                pass
            elif t == "exit":
                raise _Exit(s[1] if len(s) > 1 else None)
            elif t == "cycle":
                raise _Cycle(s[1] if len(s) > 1 else None)
            elif t == "return":
                raise _Return()
            else:
                raise ValueError("stmt %r" % (s,))
        except BaseException:
            self.tr.stmt(s, 3)          # left abnormally (trap / exit / ...)
            raise
        self.tr.stmt(s, 1)

    def intrinsic_sub(self, s, fr):
        name = s[1].upper()
        if name == "RANDOM_NUMBER":
            cells, shape = self.designate(s[2][0], fr)
            for c in cells:
                self.wr(c, 0.25)        # any value in [0,1)
        elif name == "MVBITS":
            frm = self.ev(s[2][0], fr)
            pos = self.ev(s[2][1], fr)
            ln = self.ev(s[2][2], fr)
            cells, _ = self.designate(s[2][3], fr)
            topos = self.ev(s[2][4], fr)
            old = self.rd(cells[0])
            mask = ((1 << ln) - 1)
            bits = (frm >> pos) & mask
            self.wr(cells[0], (old & ~(mask << topos)) | (bits << topos))
        else:
            raise ValueError("intrinsic subroutine " + name)

    def assign(self, lhs, rhs, fr):
        val = self.ev(rhs, fr)          # RHS (and its reads) first
        cells, shape = self.designate(lhs, fr)
        if shape is None:
            if isinstance(val, ArrV):
                raise Trap("array assigned to scalar")
            self.wr(cells[0], val)
            return
        if isinstance(val, ArrV):
            if val.shape != tuple(shape):
                raise Trap("array assignment shapes %s vs %s" % (
                    shape, val.shape))
            for c, v in zip(cells, val.vals):
                self.wr(c, v)
        else:
            for c in cells:
                self.wr(c, val)

    def do_loop(self, s, fr):
        h = self.loop_override.get(id(s))
        if h is not None:
            h(self, s, fr)
            return
        var = fr[s[1].lower()]
        lo = self.ev(s[2], fr)
        hi = self.ev(s[3], fr)
        st = self.ev(s[4], fr) if s[4] is not None else 1
        if st == 0:
            raise Trap("zero step")
        trips = max(0, tdiv(hi - lo + st, st))
        cname = s[6] if len(s) > 6 else None
        self.wr(var, lo)
        self.tr.stmt(s, 2)      # header evaluated
        k = 0
        while k < trips:
            self.tr.iteration(s, k, var.v)
            try:
                self.run_body(s[5], fr)
            except _Cycle as cy:
                if cy.args and cy.args[0] and cy.args[0] != cname:
                    self.tr.iteration(s, -1, None)
                    raise
            except _Exit as ex_:
                self.tr.iteration(s, -1, None)
                if ex_.args and ex_.args[0] and ex_.args[0] != cname:
                    raise
                return
            self.tick()
            self.wr(var, self.rd(var) + st)
            k += 1
        self.tr.iteration(s, -1, None)

    def where(self, s, fr):
        pending = None       # elements not yet claimed by an earlier mask
        for mask_e, body in s[1]:
            m = self.ev(mask_e, fr)
            if not isinstance(m, ArrV):
                raise Trap("scalar WHERE mask")
            if pending is None:
                pending = [True] * len(m.vals)
            active = [p and bool(x) for p, x in zip(pending, m.vals)]
            pending = [p and not bool(x) for p, x in zip(pending, m.vals)]
            for st in body:
                self.where_assign(st, active, m.shape, fr)
        if s[2] is not None:
            for st in s[2]:
                self.where_assign(st, pending, None, fr)

    def where_assign(self, st, active, shape, fr):
        if st[0] != "assign":
            raise Trap("only assignments inside WHERE")
        self.tick()
        self.tr.stmt(st, 0)
        val = self.ev_masked(st[2], fr, active)
        cells, lshape = self.designate(st[1], fr)
        if lshape is None or len(cells) != len(active):
            raise Trap("WHERE assignment not conformable with mask")
        for k, c in enumerate(cells):
            if active[k]:
                self.wr(c, val.vals[k] if isinstance(val, ArrV) else val)
        self.tr.stmt(st, 1)

    def ev_masked(self, e, fr, active):
        """Elemental parts of a WHERE-body RHS are evaluated only where the
        mask is true; non-elemental references (reductions) are evaluated
        fully.  Implemented by evaluating fully but suppressing traps from
        inactive elements via per-element evaluation of the top-level
        elemental operators."""
        t = e[0]
        if t in ("bin", "cmp", "log"):
            a = self.ev_masked(e[2], fr, active)
            b = self.ev_masked(e[3], fr, active)
            n = len(active)

            def g(x, k):
                return x.vals[k] if isinstance(x, ArrV) else x
            if not isinstance(a, ArrV) and not isinstance(b, ArrV):
                return self.scalar_op(e[1], a, b)
            return ArrV((n,), [self.scalar_op(e[1], g(a, k), g(b, k))
                               if active[k] else 0 for k in range(n)])
        if t == "arr" or t == "var":
            cells, shape = self.designate(e, fr)
            if shape is None:
                return self.rd(cells[0])
            if len(cells) != len(active):
                raise Trap("WHERE operand not conformable")
            return ArrV(shape, [self.rd(c) if active[k] else 0
                                for k, c in enumerate(cells)])
        return self.ev(e, fr)

    # --------------------------------------------------------------- calls
    def call_routine(self, name, args, fr, want_result):
        r = self.routines.get(name.lower())
        if r is None:
            raise Trap("unknown routine " + name)
        new = {}
        dd = {d["name"].lower(): d for d in r["decls"]}
        pending_arrays = []
        for dummy, act in zip(r["args"], args):
            d = dd[dummy.lower()]
            if d["dims"]:
                # array dummy: whole array, or section
                if act[0] == "var":
                    obj = fr[act[1].lower()]
                    cells = obj.cells
                    shape = obj.shape
                elif act[0] == "arr":
                    cells, shape = self.designate(act, fr)
                    if shape is None:
                        raise Trap("element passed to array dummy")
                else:
                    v = self.ev(act, fr)
                    cells = [Cell(x, dummy, (), d["ty"]) for x in v.vals]
                    shape = v.shape
                pending_arrays.append((dummy.lower(), d, cells, shape))
            else:
                if act[0] in ("var", "arr"):
                    cells, shape = self.designate(act, fr)
                    if shape is not None:
                        raise Trap("array passed to scalar dummy")
                    new[dummy.lower()] = cells[0]
                else:
                    v = self.ev(act, fr)
                    new[dummy.lower()] = Cell(v, dummy.lower(), (), d["ty"])
        for nm, d, cells, shape in pending_arrays:
            bounds = []
            for k, (lo, hi) in enumerate(d["dims"]):
                if lo is None and hi is None:
                    bounds.append((1, shape[k]))
                else:
                    l = self.bound(lo, new, 1)
                    h = self.bound(hi, new, None)
                    bounds.append((l, h))
            n = 1
            for lo, hi in bounds:
                n *= max(0, hi - lo + 1)
            if n > len(cells):
                raise Trap("dummy array '%s' larger than actual" % nm)
            new[nm] = Arr(nm, bounds, cells[:n], d["ty"])
        self.make_locals(r, new)
        self.frames.append((r, new))
        try:
            self.run_body(r["body"], new)
        except _Return:
            pass
        finally:
            self.frames.pop()
        if want_result:
            return self.rd(new[r["result"].lower()])
        return None

    def run_main(self, seed, n=None):
        """Interpret the unit's main program with `seed` as its input.
        Returns the frame of main."""
        m = self.unit["main"]
        fr = {}
        self.make_locals(m, fr)
        fr["seed"].v = seed
        if n is not None and "n" in fr:
            fr["n"].v = n
        try:
            self.run_body([s for s in m["body"]
                           if not (s[0] == "verb" and
                                   s[1].startswith("read"))], fr)
        except _Return:
            pass
        return fr

    def printed(self, fr):
        """What main's write statements print, as canonical text."""
        out = []
        for s in self.unit["main"]["body"]:
            if s[0] == "verb" and s[1].startswith("write(*,'(A,"):
                name = s[1].rsplit(",", 1)[1].strip()
                obj = fr[name.lower()]
                cells = obj.cells if isinstance(obj, Arr) else [obj]
                vals = []
                for c in cells:
                    v = c.v
                    if isinstance(v, bool):
                        vals.append("T" if v else "F")
                    elif isinstance(v, int):
                        vals.append(str(v))
                    elif v is None or v is POISON:
                        vals.append("?")
                    else:
                        vals.append(fmt_es(v))
                out.append(" ".join([name] + vals))
        return "\n".join(out)


def fmt_es(v):
    """ES23.15E3 as gfortran prints it."""
    if v == 0 or v != v or v in (math.inf, -math.inf):
        return "0.000000000000000E+000"
    s = "%.15E" % v
    mant, exp = s.split("E")
    return "%sE%s%03d" % (mant, exp[0], int(exp[1:]))
