"""C23 LFRic shared-DoF increments are only parallelised over colours.

Monitor (invariant at a hook): after every accepted LFRic transformation in a
random history, and again on the final schedule, every loop that is the
target of an OpenMP/OpenACC loop or parallel-loop directive and contains a
kernel with a field argument of access INC or READINC on a continuous (or
any_space) function space must iterate over the cells of one colour
(loop_type 'colour' / 'tile-cells'...); and no loop over colours may have a
parallel-region ancestor.  Decided from the kernel METADATA (argument access,
function space) and the loop's own type, not from has_inc_arg().
"""
import os
import random

from vf.core import Part, REPO

PROPERTY = "C23"
LEVEL = "exploration"

ALG_DIR = os.path.join(REPO, "src/psyclone/tests/test_files/dynamo0p3")
CONTINUOUS_PREFIXES = ("w0", "w1", "w2", "w2h", "w2v", "wchi",
                       "any_w2", "any_space")
DISCONTINUOUS = ("w3", "wtheta", "w2v", "w2vtrace", "w2broken",
                 "any_discontinuous_space")


def alg_files():
    out = []
    for f in sorted(os.listdir(ALG_DIR)):
        if f.endswith(".f90") and not f.endswith("_mod.f90") and \
                f[0].isdigit():
            out.append(f)
    return out


def shared_dof_increment(kern):
    """True if the kernel (metadata) increments a field on a continuous or
    unknown function space."""
    from psyclone.core.access_type import AccessType
    for arg in kern.arguments.args:
        if arg.access in (AccessType.INC, AccessType.READINC) and \
                arg.is_field if hasattr(arg, "is_field") else False:
            fs = arg.function_space.orig_name.lower() \
                if arg.function_space else ""
            if not fs.startswith(DISCONTINUOUS) or fs in ("w2v",) and False:
                return True, arg.name, str(arg.access), fs
    return False, None, None, None


def check_schedule(sched):
    """Returns (code, what) for the first violation or None."""
    from psyclone.psyir.nodes import (Loop, OMPDoDirective,
                                      OMPParallelDoDirective,
                                      OMPParallelDirective, ACCLoopDirective,
                                      ACCParallelDirective,
                                      OMPLoopDirective, Directive)
    from psyclone.psyGen import CodedKern
    loop_dirs = (OMPDoDirective, OMPParallelDoDirective, ACCLoopDirective,
                 OMPLoopDirective)
    par_dirs = (OMPParallelDirective, OMPParallelDoDirective,
                ACCParallelDirective)
    for lp in sched.walk(Loop):
        ltype = getattr(lp, "loop_type", "")
        if ltype == "colours":
            anc = lp.ancestor(par_dirs + loop_dirs)
            if anc is not None:
                return ("colours_loop_inside_parallel_region",
                        "loop over colours has a %s ancestor" %
                        type(anc).__name__)
        par = lp.parent.parent if lp.parent is not None else None
        if isinstance(par, loop_dirs) and ltype != "dofs":
            # this loop is the target of a loop directive
            for kern in lp.walk(CodedKern):
                bad, name, acc, fs = shared_dof_increment(kern)
                if bad and ltype not in ("colour", "cells_in_colour"):
                    return ("shared_dof_increment_parallel_not_over_colour",
                            "kernel %s increments field %s (%s on %s) "
                            "inside a loop of type '%s' under %s" % (
                                kern.name, name, acc, fs, ltype,
                                type(par).__name__))
    return None


def batch(arg):
    from psyclone.configuration import Config
    from psyclone.parse.algorithm import parse
    from psyclone.psyGen import PSyFactory
    from psyclone.psyir.nodes import Loop
    from psyclone.errors import PSycloneError
    from psyclone import transformations as T
    part = Part()
    rnd = random.Random(arg["seed"])
    Config.get().api = "lfric"

    def specs():
        return [
            ("Dynamo0p3ColourTrans", T.Dynamo0p3ColourTrans, "loop", [None]),
            ("DynamoOMPParallelLoopTrans", T.DynamoOMPParallelLoopTrans,
             "loop", [None, {"reprod": True}]),
            ("Dynamo0p3OMPLoopTrans", T.Dynamo0p3OMPLoopTrans, "loop",
             [None, {"reprod": False}]),
            ("OMPParallelTrans", T.OMPParallelTrans, "region", [None]),
            ("ACCParallelTrans", T.ACCParallelTrans, "region", [None]),
            ("ACCLoopTrans", T.ACCLoopTrans, "loop",
             [None, {"independent": True}]),
            ("ACCKernelsTrans", __import__(
                "psyclone.psyir.transformations",
                fromlist=["ACCKernelsTrans"]).ACCKernelsTrans, "region",
             [None]),
            ("Dynamo0p3RedundantComputationTrans",
             T.Dynamo0p3RedundantComputationTrans, "loop",
             [None, {"depth": 1}, {"depth": 2}]),
            ("MoveTrans", T.MoveTrans, "move", [None]),
            ("OMPParallelLoopTrans(generic)", T.OMPParallelLoopTrans, "loop",
             [None]),
            ("OMPLoopTrans(generic)", __import__(
                "psyclone.psyir.transformations",
                fromlist=["OMPLoopTrans"]).OMPLoopTrans, "loop", [None]),
        ]
    for fname in arg["files"]:
        try:
            _, info = parse(os.path.join(ALG_DIR, fname), api="lfric")
        except Exception:
            part.count("alg_parse_failed")
            continue
        for dm in (False, True):
            for h in range(arg["histories"]):
                try:
                    psy = PSyFactory("lfric", distributed_memory=dm)\
                        .create(info)
                    inv = rnd.choice(psy.invokes.invoke_list)
                    sched = inv.schedule
                except Exception:
                    part.count("psy_create_failed")
                    break
                hist = []
                fault = None
                for step in range(rnd.randint(1, arg["maxlen"])):
                    name, factory, kind, optsets = rnd.choice(specs())
                    opts = rnd.choice(optsets)
                    loops = sched.walk(Loop)
                    if not loops:
                        break
                    try:
                        t = factory()
                        if kind == "loop":
                            t.apply(rnd.choice(loops), opts)
                        elif kind == "region":
                            tgt = rnd.choice(sched.children)
                            t.apply(tgt, opts)
                        else:
                            a, b = rnd.choice(sched.children), rnd.choice(
                                sched.children)
                            t.apply(a, b)
                        hist.append(name)
                        part.count("accepted:" + name)
                    except PSycloneError:
                        part.count("refused")
                        continue
                    except Exception as err:
                        part.count("crash:%s:%s" % (name,
                                                    type(err).__name__))
                        continue
                    part.count("invariant_evaluations")
                    fault = check_schedule(sched)
                    if fault:
                        break
                judge(part, psy, hist, fault, fname, dm, inv)
                part.case(key=(fname, dm, tuple(hist)),
                          nontrivial=bool(hist),
                          sample={"file": fname, "dm": dm, "history": hist}
                          if hist and len(part.d["samples"]) < 2 else None)
    return part


def judge(part, psy, hist, fault, fname, dm, inv):
    """Classify and record a fault found on the schedule after `hist`."""
    if not fault:
        return
    mech = None
    if fault[0] == "colours_loop_inside_parallel_region" and hist and \
            hist[-1] in ("OMPParallelTrans", "ACCParallelTrans",
                         "ACCKernelsTrans"):
        # the region transformation applied LAST enclosed an existing loop
        # over colours
        mech = "region_trans_encloses_colours_loop:" + hist[-1]
    if fault[0] == "colours_loop_inside_parallel_region" and \
            "OMPParallelTrans" in hist:
        # OpenMP has a code-generation backstop: the sequence only PRODUCES
        # such code if psy.gen does not refuse it.
        from psyclone.errors import GenerationError
        try:
            str(psy.gen)
            if mech:
                mech += ":code_generated"
        except GenerationError as err:
            if "loop over colours within" in str(err):
                part.count("colours_in_omp_region_refused_at_generation")
            else:
                part.count("colours_in_omp_region_generation_other_error")
            return
        except Exception as err:
            part.count("colours_in_omp_region_generation_crash:" +
                       type(err).__name__)
            return
    part.violation({
        "kind": fault[0], "mechanism": mech,
        "what": "%s (dm=%s) invoke %s after %s: %s" % (
            fname, dm, inv.name, hist, fault[1]),
        "file": fname, "history": hist,
        "dedupe": (fault[0], mech, hist[-1] if hist else "")})


def directed_batch(arg):
    """Scripted histories: colour every loop that accepts it, then put the
    loop over colours / the loop over cells of one colour under every region
    and loop transformation, in both orders."""
    from psyclone.configuration import Config
    from psyclone.parse.algorithm import parse
    from psyclone.psyGen import PSyFactory
    from psyclone.psyir.nodes import Loop
    from psyclone.errors import PSycloneError
    from psyclone import transformations as T
    from psyclone.psyir.transformations import ACCKernelsTrans, OMPLoopTrans
    part = Part()
    Config.get().api = "lfric"
    region = {"OMPParallelTrans": T.OMPParallelTrans,
              "ACCParallelTrans": T.ACCParallelTrans,
              "ACCKernelsTrans": ACCKernelsTrans}
    inner = {"Dynamo0p3OMPLoopTrans": T.Dynamo0p3OMPLoopTrans,
             "OMPLoopTrans(generic)": OMPLoopTrans,
             "ACCLoopTrans": T.ACCLoopTrans, None: None}
    outer_loop = {"DynamoOMPParallelLoopTrans": T.DynamoOMPParallelLoopTrans,
                  "Dynamo0p3OMPLoopTrans": T.Dynamo0p3OMPLoopTrans,
                  "OMPParallelLoopTrans(generic)": T.OMPParallelLoopTrans,
                  "ACCLoopTrans": T.ACCLoopTrans}
    scripts = []
    for rname in region:
        for iname in inner:
            scripts.append(("colour", ("region", rname), ("inner", iname)))
            scripts.append(("colour", ("inner", iname), ("region", rname)))
    for oname in outer_loop:
        scripts.append(("colour", ("outer", oname)))
        scripts.append((("outer", oname),))      # uncoloured loop directly
        for rname in ("OMPParallelTrans", "ACCParallelTrans"):
            scripts.append((("region0", rname), ("outer", oname)))
    for fname in arg["files"]:
        try:
            _, info = parse(os.path.join(ALG_DIR, fname), api="lfric")
        except Exception:
            part.count("alg_parse_failed")
            continue
        for dm in (False, True):
            try:
                probe = PSyFactory("lfric", distributed_memory=dm).create(info)
                shape = [(i, len(inv.schedule.walk(Loop)))
                         for i, inv in enumerate(probe.invokes.invoke_list)]
            except Exception:
                part.count("psy_create_failed")
                continue
            for iidx, nloops in shape[:2]:
                for lidx in range(min(nloops, 3)):
                    for script in scripts:
                        psy = PSyFactory("lfric", distributed_memory=dm)\
                            .create(info)
                        inv = psy.invokes.invoke_list[iidx]
                        sched = inv.schedule
                        loop = sched.walk(Loop)[lidx]
                        hist = []
                        fault = None
                        for step in script:
                            try:
                                if step == "colour":
                                    T.Dynamo0p3ColourTrans().apply(loop)
                                    hist.append("Dynamo0p3ColourTrans")
                                    continue
                                kind, name = step
                                if name is None:
                                    continue
                                # after colouring, the loop over colours
                                # took the place of the original loop
                                coloured = "Dynamo0p3ColourTrans" in hist
                                top = sched.walk(Loop)[lidx]
                                loop = sched.walk(Loop)[lidx + 1] \
                                    if coloured else top
                                if kind in ("region", "region0"):
                                    tgt = top
                                    while tgt.parent is not sched:
                                        tgt = tgt.parent
                                    region[name]().apply(tgt)
                                elif kind == "inner":
                                    inner[name]().apply(loop)
                                else:
                                    outer_loop[name]().apply(top)
                                hist.append(name)
                                part.count("accepted:" + name)
                            except PSycloneError:
                                part.count("refused")
                                continue
                            except Exception as err:
                                part.count("crash:%s" % type(err).__name__)
                                continue
                            part.count("invariant_evaluations")
                            fault = check_schedule(sched)
                            if fault:
                                break
                        judge(part, psy, hist, fault, fname, dm, inv)
                        part.case(key=("directed", fname, dm, iidx, lidx,
                                       tuple(hist)), nontrivial=bool(hist))
    return part


def main(ctx):
    files = alg_files()
    rnd = ctx.rng("files")
    # always include the files with INC / READINC kernels on continuous spaces
    must = [f for f in files if f in (
        "1_single_invoke.f90", "14.15_halo_readinc.f90",
        "4_multikernel_invokes.f90", "14.13_halo_inc_to_inc.f90",
        "11_any_space.f90", "1_single_invoke_w3.f90",
        "4.8_multikernel_invokes.f90")]
    rest = [f for f in files if f not in must]
    rnd.shuffle(rest)
    chosen = must + rest[:40 if ctx.quick else 250]
    ctx.rule = ("random histories (<= 6) of colouring, OpenMP/OpenACC loop "
                "and region, redundant-computation and move transformations "
                "on the invokes of %d of the repository's LFRic algorithm "
                "files (always incl. the INC / READINC / any_space ones), dm "
                "on and off; the invariant is evaluated after every accepted "
                "transformation; distinct by (file, dm, history)"
                % len(chosen))
    nchunks = 32
    jobs = [{"seed": ctx.rng("b", k).random(), "files": chosen[k::nchunks],
             "histories": 6 if ctx.quick else 25, "maxlen": 6}
            for k in range(nchunks)]
    for res in ctx.pmap("vf.checks.c23", "batch", jobs, timeout=3400):
        if res:
            ctx.merge(res)
    dfiles = chosen[:7 + (8 if ctx.quick else 60)]
    djobs = [{"files": dfiles[k::16]} for k in range(16)]
    for res in ctx.pmap("vf.checks.c23", "directed_batch", djobs,
                        timeout=3400):
        if res:
            ctx.merge(res)
    if ctx.counters.get("invariant_evaluations", 0) == 0:
        ctx.inconclusive("the invariant was never evaluated")
    ctx.assumptions += [
        "continuity is decided from the metadata function-space name: "
        "w3, wtheta, w2v, w2vtrace, w2broken, any_discontinuous_space_* are "
        "discontinuous; everything else (incl. any_space_*, any_w2) counts "
        "as continuous/unknown",
        "a loop is 'the target of a loop directive' when its grandparent is "
        "an OMP do/parallel do/loop or ACC loop directive"]
