"""C22 halo-state shadow model (the oracle).

Written from the LFRic developer guide (doc/developer_guide/APIs.rst:
"Cell iterators: Continuous/Discontinuous", "Dof iterators", "Halo Exchange
Logic") and the user guide section on function spaces, NOT from PSyclone's
HaloReadAccess/HaloWriteAccess.  See DESIGN.md section C22 for the table.

A *trace* is the ordered list of events extracted from one generated invoke
subroutine by vf.c22_parse.  The shadow state of one field component is

    cd   actual clean halo depth (0..D)
    ax   annexed DoFs clean (continuous fields)
    rec  clean depth recorded in the run-time flags (what is_dirty() sees)
    pend depth of an asynchronous exchange that has started, or None

The model has no coupling between different fields (requirements and
transitions of a field only mention that field), so executing the trace once
per field and per initial state of *that* field covers every joint initial
state of the invoke.
"""
import re

# --- function space continuity, from the user guide ("Supported Function
# Spaces"): discontinuous W3, Wtheta, W2V, W2Vtrace, W2broken and
# any_discontinuous_space_n; continuous W0, W1, W2, W2trace, W2H, W2Htrace,
# any_w2; any_space_n unknown => must be assumed continuous; Wchi read-only.
DISCONTINUOUS = {"w3", "wtheta", "w2v", "w2vtrace", "w2broken"}
CONTINUOUS = {"w0", "w1", "w2", "w2trace", "w2h", "w2htrace", "any_w2"}
READ_ONLY = {"wchi"}


def continuity(space):
    """'disc', 'cont' or 'ro' for a metadata function-space name."""
    s = space.lower()
    if s in DISCONTINUOUS or s.startswith("any_discontinuous_space_"):
        return "disc"
    if s in READ_ONLY:
        return "ro"
    if s in CONTINUOUS or s.startswith("any_space_"):
        return "cont"
    raise ValueError("unknown function space " + space)


# ------------------------------------------------------------ depth expressions
_TOK = re.compile(r"\s*(\d+|[A-Za-z_][\w%]*(?:\(\))?|[-+*(),])")


class BadExpr(Exception):
    pass


def expr_names(text):
    """identifiers used in a depth expression (without 'max')."""
    out = []
    for t in _tokens(text):
        if re.match(r"[A-Za-z_]", t) and t.lower() != "max":
            out.append(t)
    return out


def _tokens(text):
    pos = 0
    toks = []
    text = text.strip()
    while pos < len(text):
        m = _TOK.match(text, pos)
        if not m:
            raise BadExpr(text)
        toks.append(m.group(1))
        pos = m.end()
    return toks


def evaluate(text, env):
    """Integer value of a depth expression: literals, names (looked up in env,
    KeyError => BadExpr), + - *, parentheses, max(a,b,...)."""
    toks = _tokens(text)
    pos = [0]

    def peek():
        return toks[pos[0]] if pos[0] < len(toks) else None

    def take(exp=None):
        t = peek()
        if t is None or (exp is not None and t != exp):
            raise BadExpr(text)
        pos[0] += 1
        return t

    def atom():
        t = take()
        if t.isdigit():
            return int(t)
        if t == "(":
            v = add()
            take(")")
            return v
        if t == "-":
            return -atom()
        if t.lower() == "max":
            take("(")
            vals = [add()]
            while peek() == ",":
                take(",")
                vals.append(add())
            take(")")
            return max(vals)
        if re.match(r"[A-Za-z_]", t):
            if t not in env:
                raise BadExpr("unknown name %s in %s" % (t, text))
            return env[t]
        raise BadExpr(text)

    def mul():
        v = atom()
        while peek() == "*":
            take("*")
            v *= atom()
        return v

    def add():
        v = mul()
        while peek() in ("+", "-"):
            if take() == "+":
                v += mul()
            else:
                v -= mul()
        return v
    v = add()
    if pos[0] != len(toks):
        raise BadExpr(text)
    return v


# ----------------------------------------------------------------- the shadow
class InvalidConfig(Exception):
    """The chosen mesh halo depth / stencil extents make the invoke invalid at
    run time (a depth larger than the mesh halo): not judged."""


class Fault(Exception):
    def __init__(self, kind, mechanism, event, detail):
        Exception.__init__(self, detail)
        self.kind = kind
        self.mechanism = mechanism
        self.event = event
        self.detail = detail


def hclass(h, D, sym):
    if sym:
        # a loop to the full halo depth on a mesh whose halo depth is 1 is a
        # corner of its own (max_halo_depth_mesh-1 == 0)
        return "hmax_D1" if D == 1 else "hmax"
    if h <= 1:
        return "h%d" % h
    return "hk"


class Shadow:
    """State of ONE field component."""

    def __init__(self, D, cd, ax):
        self.D = D
        self.cd = cd
        self.ax = ax
        self.rec = cd
        self.pend = None
        self.unchecked_write = False

    def snapshot(self):
        return {"actual_clean_depth": self.cd, "annexed_clean": self.ax,
                "recorded_clean_depth": self.rec, "async_pending": self.pend}


def initial_states(D, cont, annexed_cfg, read_only):
    """All initial (cd, ax) of a field component.  ax is clean whenever
    cd >= 1; ax is always clean when COMPUTE_ANNEXED_DOFS is true (the guide:
    'We can now guarantee that annexed dofs will always be clean after a
    continuous field has been modified by a kernel'); fields on a read-only
    space must have clean halos (user guide 'Read-Only Function Spaces')."""
    if read_only:
        return [(D, True)]
    out = []
    for cd in range(D + 1):
        out.append((cd, True))
        if cd == 0 and cont and not annexed_cfg:
            out.append((0, False))
    return out


def run_field(events, key, D, env, cd0, ax0, counters=None, log=None,
              nofault=False):
    """Execute the trace for field component `key` from initial state
    (cd0, ax0).  Raises Fault at the first rule that fails, InvalidConfig if a
    depth exceeds D.  `events` are dicts produced by vf.c22_parse (already
    resolved against kernel metadata: see c22_parse.resolve).
    `log`: optional list that receives (line, operation, depth, result) for
    every run-time halo call the trace makes for this field (used to compare
    with the calls a real run makes); `nofault`: do not raise Fault."""
    st = Shadow(D, cd0, ax0)
    env = dict(env)
    cnt = counters if counters is not None else {}

    def bump(k):
        cnt[k] = cnt.get(k, 0) + 1

    def depth(expr, lo=0):
        try:
            v = evaluate(expr, env)
        except BadExpr as err:
            raise InvalidConfig("cannot evaluate " + str(err))
        if v > D or v < lo:
            raise InvalidConfig("depth %s=%d outside %d..%d" % (expr, v, lo,
                                                                D))
        return v

    def check_recorded(ev, why):
        bump("writes_checked" if why == "after_write"
             else "recorded_state_checks_at_guard_or_end")
        if st.rec > st.cd and not nofault:
            raise Fault(
                "recorded_cleaner_than_actual",
                "write:%s:recorded_cleaner" % (st.last_write or "initial"),
                ev, "recorded clean depth %d > actual clean depth %d (%s)"
                % (st.rec, st.cd, why))

    st.last_write = None

    def do_exchange(ev, kind):
        d = depth(ev["depth"])
        if log is not None:
            log.append((ev["line"], {"sync": "exchange",
                                     "start": "exchange_start",
                                     "finish": "exchange_finish"}[kind], d,
                        None))
        if kind == "start":
            st.pend = d
            return
        if kind == "finish":
            if (st.pend is None or st.pend < d) and not nofault:
                raise Fault("async_finish_without_start",
                            "async:finish_without_start", ev,
                            "halo_exchange_finish(depth=%d) runs but no "
                            "matching start ran (pending=%s)" % (d, st.pend))
            st.pend = None
        st.cd = max(st.cd, d)
        if d >= 1:
            st.ax = True
        st.rec = max(st.rec, d)

    def run(evs):
        for ev in evs:
            t = ev["t"]
            if t == "guard":
                if ev["field"] != key:
                    continue
                bump("guards_evaluated")
                if st.unchecked_write:
                    # recorded state is consumed here
                    st.unchecked_write = False
                    check_recorded(ev, "after_write")
                else:
                    check_recorded(ev, "guard")
                d = depth(ev["depth"])
                if log is not None:
                    log.append((ev["line"], "is_dirty", d, st.rec < d))
                if st.rec < d:      # is_dirty(depth=d)
                    bump("guards_taken")
                    run(ev["body"])
            elif t == "hex":
                if ev["field"] != key:
                    continue
                bump("exchanges_executed")
                do_exchange(ev, ev["kind"])
            elif t == "set_dirty":
                if ev["field"] == key:
                    st.rec = 0
                    if log is not None:
                        log.append((ev["line"], "set_dirty", None, None))
            elif t == "set_clean":
                if ev["field"] == key:
                    st.rec = max(st.rec, depth(ev["depth"]))
                    if log is not None:
                        log.append((ev["line"], "set_clean",
                                    depth(ev["depth"]), None))
            elif t == "setters_end":
                if st.unchecked_write:
                    st.unchecked_write = False
                    check_recorded(ev, "after_write")
            elif t == "loop":
                accs = [a for a in ev["accesses"] if a["field"] == key]
                if not accs:
                    continue
                do_loop(ev, accs)
            else:
                raise AssertionError("unknown event " + t)

    def need(ev, acc, what, ok, required, code):
        bump("reads_checked")
        if not ok and not nofault:
            raise Fault(
                "dirty_halo_read", code, ev,
                "%s of %s needs %s but state is clean depth %d, annexed %s"
                % (what, key, required, st.cd,
                   "clean" if st.ax else "dirty"))

    def do_loop(ev, accs):
        if ev["kind"] == "cells":
            sym = ev["h"].strip() in ("max_halo_depth_mesh", "D")
            h = depth(ev["h"])
            hc = hclass(h, D, sym)
            # all reads first (the kernel reads before the loop's result is
            # recorded), then the writes
            for a in accs:
                acc, c = a["access"], a["cont"]
                s = 0
                if a.get("stencil") is not None:
                    s = depth(a["stencil"], lo=1)
                cname = {"cont": "continuous", "disc": "discontinuous",
                         "ro": "readonly"}[c]
                if acc in ("READ", "READWRITE"):
                    if h + s > D:
                        raise InvalidConfig("h+s > D")
                    pre = ("stencil" if s else "read") + ":" + cname + ":" + hc
                    need(ev, a, acc, st.cd >= h + s, "halo clean to depth %d"
                         % (h + s), pre + ":halo_dirty")
                    if c == "cont" and h + s == 0 and \
                            not a.get("gh_write_cont_kernel"):
                        need(ev, a, acc, st.ax, "clean annexed DoFs",
                             pre + ":annexed_dirty" +
                             (":all_updates_gh_write"
                              if a.get("all_updates_gh_write") else ""))
                elif acc == "INC":
                    need(ev, a, acc, st.cd >= h - 1,
                         "halo clean to depth %d" % max(h - 1, 0),
                         "inc:continuous:%s:halo_dirty" % hc)
                    need(ev, a, acc, st.ax, "clean annexed DoFs",
                         "inc:continuous:%s:annexed_dirty" % hc)
                elif acc == "READINC":
                    need(ev, a, acc, st.cd >= h,
                         "halo clean to depth %d" % h,
                         "readinc:continuous:%s:halo_dirty" % hc)
                    need(ev, a, acc, st.ax, "clean annexed DoFs",
                         "readinc:continuous:%s:annexed_dirty" % hc)
                elif acc == "WRITE":
                    pass
                else:
                    raise AssertionError("access " + acc)
            for a in accs:
                acc, c = a["access"], a["cont"]
                if acc == "READ":
                    continue
                if st.pend is not None and not nofault:
                    raise Fault("write_during_async_exchange",
                                "async:write_while_pending", ev,
                                "%s written while an asynchronous halo "
                                "exchange is in flight" % key)
                if acc in ("INC", "READINC"):
                    st.cd = max(h - 1, 0)
                    st.ax = h >= 1
                    st.last_write = "inc:%s" % hc
                elif c == "cont":       # GH_WRITE on a continuous field
                    st.cd = h
                    st.ax = True
                    st.last_write = "gh_write_continuous:%s" % hc
                else:
                    st.cd = h
                    st.last_write = "discontinuous:%s" % hc
                if st.cd >= 1:
                    # every DoF on the cells of halo level 1 was computed,
                    # which includes annexed DoFs (keeps the invariant
                    # 'clean depth >= 1 implies annexed clean' when a test
                    # algorithm passes one field to kernels that disagree
                    # on its continuity)
                    st.ax = True
                st.unchecked_write = True
        else:   # DoF loop
            b = ev["bound"]
            if b not in ("owned", "annexed"):
                k = depth(b)
                bc = "dof_halo"
            else:
                bc = b
            for a in accs:
                if a["access"] in ("READ", "READWRITE"):
                    if b == "owned":
                        bump("reads_checked")
                    elif b == "annexed":
                        need(ev, a, "DoF-loop read", st.ax,
                             "clean annexed DoFs",
                             "dofread:nannexed:annexed_dirty")
                    else:
                        need(ev, a, "DoF-loop read", st.cd >= k,
                             "halo clean to depth %d" % k,
                             "dofread:dof_halo:halo_dirty")
            for a in accs:
                if a["access"] in ("WRITE", "READWRITE"):
                    if st.pend is not None and not nofault:
                        raise Fault("write_during_async_exchange",
                                    "async:write_while_pending", ev,
                                    "%s written while an asynchronous halo "
                                    "exchange is in flight" % key)
                    if b == "owned":
                        st.cd, st.ax = 0, False
                    elif b == "annexed":
                        st.cd, st.ax = 0, True
                    else:
                        st.cd, st.ax = k, (True if k >= 1 else st.ax)
                    st.last_write = "dofs:" + bc
                    st.unchecked_write = True

    try:
        run(events)
        end = {"t": "end", "line": None, "text": "<end of invoke>"}
        st.unchecked_write = False
        check_recorded(end, "end_of_invoke")
        if st.pend is not None and not nofault:
            raise Fault("async_start_without_finish",
                        "async:start_without_finish", end,
                        "halo_exchange_start ran for %s but its finish did "
                        "not" % key)
    except Fault as f:
        f.state = st.snapshot()
        raise
    return st
