"""C06 Array-syntax and intrinsic lowering preserve semantics.

Oracle: as C05 (vf.xform differential execution) for the transformations
that rewrite array notation or intrinsic calls into explicit code.
"""
import random
import tempfile

from vf import fgen, flite, diffrun, scen, xform
from vf.core import Part
from vf.checks import c05

PROPERTY = "C06"
LEVEL = "exploration"

INTRINSIC_TRANS = {
    "ABS": "Abs2CodeTrans", "SIGN": "Sign2CodeTrans", "MIN": "Min2CodeTrans",
    "MAX": "Max2CodeTrans", "DOT_PRODUCT": "DotProduct2CodeTrans",
    "MATMUL": "Matmul2CodeTrans", "SUM": "Sum2LoopTrans",
    "PRODUCT": "Product2LoopTrans", "MINVAL": "Minval2LoopTrans",
    "MAXVAL": "Maxval2LoopTrans"}
TNAMES = ["ArrayAssignment2LoopsTrans", "Reference2ArrayRangeTrans",
          "ArrayAccess2LoopTrans", "AllArrayAccess2LoopTrans"] + \
    sorted(set(INTRINSIC_TRANS.values()))


def all_real_scalar(call):
    from psyclone.psyir.symbols import ScalarType
    try:
        for a in call.arguments:
            dt = a.datatype
            if not isinstance(dt, ScalarType) or \
                    dt.intrinsic != ScalarType.Intrinsic.REAL:
                return False
        return True
    except Exception:
        return False


def attempts(tree):
    from psyclone.psyir.nodes import (Assignment, IntrinsicCall, Reference,
                                      ArrayReference, Range)
    from psyclone.psyir import transformations as T
    from psyclone.psyir.symbols import ArrayType
    out = []
    for k, asg in enumerate(tree.walk(Assignment)):
        out.append(xform.Attempt(
            "ArrayAssignment2LoopsTrans", "assign%d" % k, {},
            lambda t, k=k: T.ArrayAssignment2LoopsTrans().apply(
                t.walk(Assignment)[k])))
        # whole-array names -> ranges, then loops (two steps, one attempt)
        def both(t, k=k):
            a = t.walk(Assignment)[k]
            done = 0
            for ref in a.walk(Reference):
                if type(ref) is Reference and isinstance(
                        ref.symbol.datatype, ArrayType):
                    try:
                        T.Reference2ArrayRangeTrans().apply(ref)
                        done += 1
                    except T.TransformationError:
                        pass
            if not done:
                raise T.TransformationError("no bare array reference")
            T.ArrayAssignment2LoopsTrans().apply(t.walk(Assignment)[k])
        out.append(xform.Attempt("Reference2ArrayRange+ArrayAssignment2Loops",
                                 "assign%d" % k, {}, both))
        out.append(xform.Attempt(
            "AllArrayAccess2LoopTrans", "assign%d" % k, {},
            lambda t, k=k: T.AllArrayAccess2LoopTrans().apply(
                t.walk(Assignment)[k])))
        if isinstance(asg.lhs, ArrayReference):
            for ci, idx in enumerate(asg.lhs.children):
                if not isinstance(idx, Range):
                    out.append(xform.Attempt(
                        "ArrayAccess2LoopTrans", "assign%d.idx%d" % (k, ci),
                        {}, lambda t, k=k, ci=ci:
                        T.ArrayAccess2LoopTrans().apply(
                            t.walk(Assignment)[k].lhs.children[ci])))
    for k, ref in enumerate(tree.walk(Reference)):
        if type(ref) is Reference and isinstance(
                getattr(ref.symbol, "datatype", None), ArrayType):
            out.append(xform.Attempt(
                "Reference2ArrayRangeTrans", "ref%d" % k, {},
                lambda t, k=k: T.Reference2ArrayRangeTrans().apply(
                    t.walk(Reference)[k])))
    for k, call in enumerate(tree.walk(IntrinsicCall)):
        tn = INTRINSIC_TRANS.get(call.intrinsic.name)
        if tn in ("Abs2CodeTrans", "Sign2CodeTrans", "Min2CodeTrans",
                  "Max2CodeTrans") and not all_real_scalar(call):
            # documented domain of these four: real scalar arguments
            continue
        if tn:
            out.append(xform.Attempt(
                tn, "icall%d" % k, {},
                lambda t, k=k, tn=tn: getattr(T, tn)().apply(
                    t.walk(IntrinsicCall)[k])))
    return out


def batch(arg):
    part = Part()
    rnd = random.Random(arg["seed"])
    wd = tempfile.mkdtemp(prefix="vf_c06_")
    inputs = diffrun.INPUTS[:arg["ninputs"]]
    saved = c05.attempts
    c05.attempts = attempts          # reuse c05.judge_unit with our attempts
    try:
        for n in range(arg["count"]):
            x = rnd.random()
            if x < 0.7:
                name = rnd.choice(scen.C06_SCEN)
                sseed = rnd.random()
                hazard_on = rnd.random() < 0.3
                unit, hz = scen.make(name, sseed, hazard_on)
                twin_fn = (lambda name=name, sseed=sseed:
                           scen.make(name, sseed, False)[0])
                tag = "scen:" + name
            else:
                opts = {"select": False, "where": False, "verb": False,
                        "nstmts": rnd.randint(2, 5), "depth": 2,
                        "intrinsics": True}
                unit, g = fgen.kernel_unit(rnd, opts)
                hz, twin_fn, tag = None, None, "generic"
            nt = c05.judge_unit(unit, wd, part, inputs, rnd, hz, twin_fn, tag)
            part.count("units:" + tag)
            part.case(key=flite.module_text(unit), nontrivial=nt,
                      sample={"scenario": tag, "hazard": hz,
                              "module": flite.module_text(unit)[:1200]}
                      if n == 0 else None)
    finally:
        c05.attempts = saved
        diffrun.cleanup(wd)
    return part


def main(ctx):
    ctx.rule = ("kernels from scenario generators (section assignments incl. "
                "overlapping/strided/2-D/whole-array, ABS/SIGN/MIN/MAX on "
                "scalars and elements, SUM/PRODUCT/MINVAL/MAXVAL with mask/"
                "dim, DOT_PRODUCT, MATMUL; 30% with the planted overlap "
                "hazard) and generic random kernels; every applicable "
                "(transformation, target) attempt on a fresh tree; accepted "
                "results compiled (-fcheck=all) and run on inputs incl. "
                "n=0,1; non-trivial = an accepted transformation changed the "
                "text; distinct by module text")
    nb = 32 if ctx.quick else 160
    cnt = 4 if ctx.quick else 30
    jobs = [{"seed": ctx.rng("b", i).random(), "count": cnt,
             "ninputs": 5 if ctx.quick else 8} for i in range(nb)]
    for res in ctx.pmap("vf.checks.c06", "batch", jobs, timeout=3400):
        if res:
            ctx.merge(res)
    acc = sum(v for k, v in ctx.counters.items() if k.startswith("accepted:"))
    ctx.extra["accepted_applications"] = acc
    ctx.extra["traces_validated_against_impl"] = ctx.counters.get(
        "interp_validated_runs", 0)
    if acc == 0:
        ctx.inconclusive("no transformation was accepted")
    ctx.extra["transformations_never_accepted"] = [
        t for t in TNAMES if not ctx.counters.get("accepted:" + t)]
    ctx.assumptions += [
        "real values are small integers / dyadic rationals; signed zeros "
        "are normalised in the output; NaNs never occur"]
