! Stub of the PSyData extraction library (the real one needs jinja2 and
! NetCDF): every method is a no-op, so that a PSy layer containing an
! extraction region can be compiled and its loops executed.
module extract_psy_data_mod
  use kind_params_mod
  use field_mod
  implicit none
  type :: extract_PSyDataType
     integer :: nregions = 0
   contains
     procedure :: PreStart, PreEndDeclaration, PreEnd, PostStart, PostEnd
     procedure :: decl_r2, decl_i2, decl_r0, decl_i0, decl_fld
     procedure :: prov_r2, prov_i2, prov_r0, prov_i0, prov_fld
     generic :: PreDeclareVariable => decl_r2, decl_i2, decl_r0, decl_i0, decl_fld
     generic :: ProvideVariable => prov_r2, prov_i2, prov_r0, prov_i0, prov_fld
  end type extract_PSyDataType
contains
  subroutine PreStart(this, module_name, region_name, nin, nout)
    class(extract_PSyDataType), intent(inout), target :: this
    character(*), intent(in) :: module_name, region_name
    integer, intent(in) :: nin, nout
    this%nregions = this%nregions + 1
  end subroutine PreStart
  subroutine PreEndDeclaration(this)
    class(extract_PSyDataType), intent(inout), target :: this
  end subroutine PreEndDeclaration
  subroutine PreEnd(this)
    class(extract_PSyDataType), intent(inout), target :: this
  end subroutine PreEnd
  subroutine PostStart(this)
    class(extract_PSyDataType), intent(inout), target :: this
  end subroutine PostStart
  subroutine PostEnd(this)
    class(extract_PSyDataType), intent(inout), target :: this
  end subroutine PostEnd
  subroutine decl_r2(this, name, v)
    class(extract_PSyDataType), intent(inout), target :: this
    character(*), intent(in) :: name
    real(go_wp), intent(in) :: v(:,:)
  end subroutine decl_r2
  subroutine decl_i2(this, name, v)
    class(extract_PSyDataType), intent(inout), target :: this
    character(*), intent(in) :: name
    integer, intent(in) :: v(:,:)
  end subroutine decl_i2
  subroutine decl_r0(this, name, v)
    class(extract_PSyDataType), intent(inout), target :: this
    character(*), intent(in) :: name
    real(go_wp), intent(in) :: v
  end subroutine decl_r0
  subroutine decl_i0(this, name, v)
    class(extract_PSyDataType), intent(inout), target :: this
    character(*), intent(in) :: name
    integer, intent(in) :: v
  end subroutine decl_i0
  subroutine decl_fld(this, name, v)
    class(extract_PSyDataType), intent(inout), target :: this
    character(*), intent(in) :: name
    type(r2d_field), intent(in) :: v
  end subroutine decl_fld
  subroutine prov_r2(this, name, v)
    class(extract_PSyDataType), intent(inout), target :: this
    character(*), intent(in) :: name
    real(go_wp), intent(in) :: v(:,:)
  end subroutine prov_r2
  subroutine prov_i2(this, name, v)
    class(extract_PSyDataType), intent(inout), target :: this
    character(*), intent(in) :: name
    integer, intent(in) :: v(:,:)
  end subroutine prov_i2
  subroutine prov_r0(this, name, v)
    class(extract_PSyDataType), intent(inout), target :: this
    character(*), intent(in) :: name
    real(go_wp), intent(in) :: v
  end subroutine prov_r0
  subroutine prov_i0(this, name, v)
    class(extract_PSyDataType), intent(inout), target :: this
    character(*), intent(in) :: name
    integer, intent(in) :: v
  end subroutine prov_i0
  subroutine prov_fld(this, name, v)
    class(extract_PSyDataType), intent(inout), target :: this
    character(*), intent(in) :: name
    type(r2d_field), intent(in) :: v
  end subroutine prov_fld
end module extract_psy_data_mod
