"""C10 Directive trees produced by accepted transformations are valid.

Monitors on the text the real FortranWriter emits after a random history of
accepted OpenMP/OpenACC transformations (interleaved with structural edits):
 (a) gfortran -fopenmp -fopenacc -c accepts it;
 (b) a pushdown monitor over the directive lines: every worksharing / loop
     directive has an enclosing parallel (omp parallel, acc parallel/kernels)
     region, parallel regions are not nested, every `end` matches, and
     collapse(n) is followed by n perfectly nested loops.
A refusal (any PSycloneError at transformation or write time) is the allowed
alternative.
"""
import os
import random
import re
import shutil
import tempfile

from vf import fgen, flite, scen, psy, fx
from vf.core import Part

PROPERTY = "C10"
LEVEL = "exploration"


def make_transformations():
    from psyclone import transformations as T
    from psyclone.psyir import transformations as P
    specs = []

    def add(name, factory, kind, optsets):
        specs.append((name, factory, kind, optsets))
    add("OMPParallelTrans", T.OMPParallelTrans, "region", [None])
    for d in ("do", "paralleldo", "teamsdistributeparalleldo", "loop"):
        add("OMPLoopTrans[%s]" % d,
            lambda d=d: P.OMPLoopTrans(omp_directive=d), "loop",
            [None, {"collapse": 2}, {"collapse": 3}, {"force": True},
             {"nowait": True}])
    add("OMPParallelLoopTrans", T.OMPParallelLoopTrans, "loop",
        [None, {"collapse": 2}, {"force": True}])
    add("OMPSingleTrans", T.OMPSingleTrans, "region", [None, {"nowait": True}])
    add("OMPMasterTrans", T.OMPMasterTrans, "region", [None])
    add("OMPTargetTrans", P.OMPTargetTrans, "region", [None])
    add("OMPTaskloopTrans", T.OMPTaskloopTrans, "loop",
        [None, {"force": True}])
    add("OMPTaskwaitTrans", P.OMPTaskwaitTrans, "node", [None])
    add("ACCParallelTrans", T.ACCParallelTrans, "region", [None])
    add("ACCKernelsTrans", P.ACCKernelsTrans, "region", [None])
    add("ACCLoopTrans", T.ACCLoopTrans, "loop",
        [None, {"collapse": 2}, {"collapse": 3}, {"gang": True},
         {"vector": True}, {"independent": False}, {"sequential": True}])
    add("ACCDataTrans", T.ACCDataTrans, "region", [None])
    add("ACCEnterDataTrans", T.ACCEnterDataTrans, "schedule", [None])
    add("ACCRoutineTrans", T.ACCRoutineTrans, "routine", [None])
    add("LoopSwapTrans", P.LoopSwapTrans, "loop", [None])
    add("HoistTrans", P.HoistTrans, "assign", [None])
    add("MoveTrans", T.MoveTrans, "move", [None])
    return specs


OMP_PAR_BEGIN = re.compile(r"^!\$omp\s+parallel(\s|$)(?!.*\bdo\b)", re.I)


DECL_LIKE = re.compile(
    r"^(subroutine|function|module|use|implicit|integer|real|double|logical|"
    r"type|character|contains|end|public|private|interface|procedure)\b")

FORBIDDEN_INSIDE = {
    # inner directive : enclosing region kinds in which it must not appear
    "acc data": {"acc parallel", "acc kernels"},
    "acc enter": {"acc parallel", "acc kernels"},
    "acc parallel": {"acc parallel", "acc kernels"},
    "acc kernels": {"acc parallel", "acc kernels"},
    "omp parallel": {"omp parallel", "omp parallel do"},
    "omp parallel do": {"omp parallel", "omp parallel do", "omp do",
                        "omp single", "omp master"},
    "omp do": {"omp do", "omp single", "omp master", "omp parallel do",
               "omp taskloop"},
    "omp single": {"omp single", "omp master", "omp do", "omp parallel do",
                   "omp taskloop"},
    "omp master": {"omp do", "omp parallel do", "omp taskloop",
                   "omp single"},
    "omp target": {"omp target"},
}


def directive_monitor(text):
    """Returns (code, description) of the first structural fault or None.
    code is a canonical mechanism string built from the directive kinds
    involved (never from names or line numbers)."""
    lines = text.splitlines()
    stack = []         # entries: (kind, line_no)
    has_routine = "!$acc routine" in text.lower()

    def inside(kinds):
        for k, _ in reversed(stack):
            if k in kinds:
                return k
        return None

    seen_exec = False
    for ln, raw in enumerate(lines):
        s = raw.strip().lower()
        if not s.startswith(("!$omp", "!$acc")):
            if s and not s.startswith("!") and not DECL_LIKE.match(s):
                seen_exec = True
            if re.match(r"^(subroutine|function)\b", s):
                seen_exec = False
            continue
        fam = "omp" if s.startswith("!$omp") else "acc"
        if s.startswith("!$acc routine") and seen_exec:
            return ("misplaced:acc routine",
                    "line %d: '!$acc routine' after an executable statement"
                    % (ln + 1))
        if has_routine and s.startswith("!$acc loop") and re.search(
                r"\b(gang|worker|vector)\b", s):
            return ("nest:acc loop(parallelism)-in-acc routine",
                    "line %d: '%s' inside a routine marked '!$acc routine' "
                    "(seq)" % (ln + 1, s))
        words = s[5:].strip().split("(")[0].split()
        if not words:
            continue
        if words[0] == "end":
            key = fam + " " + " ".join(words[1:])
            if not stack:
                return ("unmatched_end", "line %d: '%s' without an open "
                        "region" % (ln + 1, s))
            top, tl = stack.pop()
            if top != key:
                return ("mismatched_end:%s/%s" % (key, top),
                        "line %d: '%s' closes '%s' opened at line %d" % (
                            ln + 1, s, top, tl + 1))
            continue
        if fam == "omp":
            if words[:2] == ["parallel", "do"]:
                kind = "omp parallel do"
            elif words[:3] == ["teams", "distribute", "parallel"]:
                kind = "omp teams distribute parallel do"
            elif words[0] in ("taskwait", "declare", "barrier"):
                kind = None
            else:
                kind = "omp " + words[0]
        else:
            if words[:2] == ["enter", "data"]:
                kind = "acc enter"
            elif words[0] in ("routine", "update", "wait"):
                kind = None
            else:
                kind = "acc " + words[0]
        if kind is None:
            continue
        if kind == "omp single" and "nowait" in words:
            return ("clause:nowait-on-omp-single-begin",
                    "line %d: '%s': before OpenMP 5.2 NOWAIT belongs on the "
                    "END SINGLE directive" % (ln + 1, s))
        if has_routine and kind in ("acc parallel", "acc kernels", "acc data",
                                    "acc enter") or \
                (has_routine and fam == "omp"):
            return ("nest:%s-in-acc routine" % (
                kind if fam == "acc" else "omp directive"),
                    "line %d: '%s' inside a routine marked '!$acc routine'"
                    % (ln + 1, s))
        enc = inside(FORBIDDEN_INSIDE.get(kind, set()))
        if enc:
            return ("nest:%s-in-%s" % (kind, enc),
                    "line %d: '%s' appears inside an open '%s' region" % (
                        ln + 1, s, enc))
        if kind in ("omp do", "omp loop") and not inside(
                {"omp parallel", "omp teams", "omp target"}):
            return ("orphan:" + kind, "line %d: '%s' is not inside a "
                    "parallel region" % (ln + 1, s))
        if kind == "omp taskloop" and not inside({"omp parallel"}):
            return ("orphan:omp taskloop", "line %d: taskloop outside a "
                    "parallel region" % (ln + 1))
        if kind == "acc loop" and not inside({"acc parallel", "acc kernels"})\
                and not has_routine:
            return ("orphan:acc loop", "line %d: '%s' is not inside a "
                    "parallel/kernels region" % (ln + 1, s))
        m = re.search(r"collapse\((\d+)\)", s)
        if m:
            fault = check_collapse(lines, ln + 1, int(m.group(1)))
            if fault:
                return ("collapse", "line %d: %s" % (ln + 1, fault))
        if kind in ("acc enter",):
            continue
        if kind == "acc loop":
            continue          # no END for acc loop
        stack.append((kind, ln))
    if stack:
        return ("unclosed:" + stack[-1][0],
                "region '%s' opened at line %d is never closed" % (
                    stack[-1][0], stack[-1][1] + 1))
    return None


def check_collapse(lines, start, depth):
    """Lines after a collapse(depth) directive must be `depth` perfectly
    nested DO loops."""
    k = start
    for level in range(depth):
        while k < len(lines) and (not lines[k].strip() or
                                  lines[k].strip().startswith("!")):
            k += 1
        if k >= len(lines) or not re.match(r"^\s*do\s+\w+\s*=",
                                           lines[k], re.I):
            return "collapse(%d) but loop level %d is '%s'" % (
                depth, level + 1, lines[k].strip() if k < len(lines)
                else "<eof>")
        if level < depth - 1:
            # the body of this loop must contain exactly one statement: a DO
            end = matching_enddo(lines, k)
            inner = [l for l in lines[k + 1:end]
                     if l.strip() and not l.strip().startswith("!")]
            if not inner or not re.match(r"^\s*do\s+\w+\s*=", inner[0], re.I):
                return "collapse(%d) but level %d is not followed by a " \
                       "nested loop" % (depth, level + 1)
            iend = None
            # first inner loop must span the whole body
            rel = [i for i in range(k + 1, end) if lines[i].strip() and
                   not lines[i].strip().startswith("!")]
            iend = matching_enddo(lines, rel[0])
            tail = [i for i in rel if i > iend]
            if tail:
                return "collapse(%d) but loop level %d is not perfectly " \
                       "nested" % (depth, level + 1)
        k += 1
    return None


def matching_enddo(lines, start):
    d = 0
    for i in range(start, len(lines)):
        s = lines[i].strip().lower()
        if re.match(r"^do(\s|$)", s):
            d += 1
        elif s.startswith("enddo") or s.startswith("end do"):
            d -= 1
            if d == 0:
                return i
    return len(lines) - 1


def run_history(text, rnd, specs, maxlen, part):
    """Returns (written_text or None, history, refusal_at_write)."""
    from psyclone.errors import PSycloneError
    from psyclone.psyir.nodes import Loop, Assignment, Routine, Schedule
    tree = psy.read(text)
    hist = []
    fam = rnd.choice(["OMP", "ACC"])
    specs = [s for s in specs if not s[0].startswith(
        "ACC" if fam == "OMP" else "OMP")]
    for _ in range(rnd.randint(1, maxlen)):
        name, factory, kind, optsets = rnd.choice(specs)
        opts = rnd.choice(optsets)
        loops = tree.walk(Loop)
        try:
            t = factory()
            if kind == "loop":
                if not loops:
                    continue
                tgt = rnd.choice(loops)
                t.apply(tgt, opts)
            elif kind == "region":
                stmts = [n for n in tree.walk(object)
                         if isinstance(n.parent, Schedule)]
                if not stmts:
                    continue
                first = rnd.choice(stmts)
                sib = first.parent.children
                k = first.position
                t.apply(sib[k:k + rnd.randint(1, 3)], opts)
            elif kind == "node":
                stmts = [n for n in tree.walk(object)
                         if isinstance(n.parent, Schedule)]
                t.apply(rnd.choice(stmts), opts)
            elif kind == "schedule":
                t.apply(rnd.choice(tree.walk(Routine)), opts)
            elif kind == "routine":
                t.apply(rnd.choice(tree.walk(Routine)), opts)
            elif kind == "assign":
                asg = [a for a in tree.walk(Assignment) if a.ancestor(Loop)]
                if not asg:
                    continue
                t.apply(rnd.choice(asg), opts)
            elif kind == "move":
                stmts = [n for n in tree.walk(object)
                         if isinstance(n.parent, Schedule)]
                a, b = rnd.choice(stmts), rnd.choice(stmts)
                t.apply(a, b, {"position": rnd.choice(["before", "after"])})
            hist.append((name, opts))
            part.count("accepted:" + name.split("[")[0])
        except PSycloneError:
            part.count("refused")
        except Exception as err:
            part.count("crash:%s:%s" % (name.split("[")[0],
                                        type(err).__name__))
    if not hist:
        return None, hist, None
    try:
        return psy.write(tree), hist, None
    except PSycloneError as err:
        part.count("writer_refused")
        return None, hist, str(err)[:100]
    except Exception as err:
        part.count("writer_crash:" + type(err).__name__)
        return None, hist, None


def judge_written(part, wd, text, out, hist):
    """Structural monitor + compiler oracle on one written program."""
    has_dir = "!$omp" in out or "!$acc" in out
    part.count("histories_written")
    fault = directive_monitor(out)
    part.count("monitor_evaluations")
    hs = [(a, b) for a, b in hist]
    code = None
    if fault:
        code = fault[0]
        part.violation({
            "kind": "invalid_directive_structure",
            "mechanism": code,
            "what": "history %s: %s" % (hs, fault[1]),
            "source": text, "written": out, "history": hs,
            "dedupe": code})
    ok, err = fx.compile_f(wd, [("m.f90", out)], flags=[
        "-O0", "-fopenmp", "-fopenacc", "-fimplicit-none",
        "-ffree-line-length-none"], compile_only=True)
    part.count("compiles")
    if not ok:
        msg = [l for l in err.splitlines() if "Error" in l]
        part.violation({
            "kind": "compiler_rejects_generated_code",
            "mechanism": code,
            "what": "history %s: %s" % (hs, (msg or [err])[0]
                                        [:300]),
            "source": text, "written": out, "history": hs,
            "compiler": err[-800:],
            "dedupe": re.sub(r"\d+", "N",
                             (msg or [err])[0])[:70]})
    part.case(key=(text, hs), nontrivial=has_dir,
              sample={"history": hs, "written": out[:1200]}
              if has_dir and len(part.d["samples"]) < 1
              else None)


def nest_program(rnd):
    """2-/3-deep loop nests: perfect, with a statement before / after the
    inner loop (imperfect although the inner loop may be the FIRST statement
    of the body), triangular."""
    from vf.flite import B as B_, V as V_, I as I_, R as R_, A as A_
    shape = rnd.choice(["perfect", "stmt_after", "stmt_before", "triangular",
                        "perfect3", "after3", "hoistable", "hoistable"])
    core = [["assign", A_("m2", V_("i"), V_("j")),
             B_("+", A_("m2", V_("i"), V_("j")), R_(1.0))]]
    if shape in ("perfect3", "after3"):
        core = [["do", "k", I_(1), I_(2), None, [
            ["assign", A_("m2", V_("i"), V_("j")),
             B_("+", A_("m2", V_("i"), V_("j")), R_(1.0))]]]]
        if shape == "after3":
            core.append(["assign", A_("m2", V_("i"), V_("j")), R_(3.0)])
    if shape == "hoistable":
        # a loop-invariant assignment inside the inner loop: HoistTrans moves
        # it into the outer body AFTER a collapse clause was accepted
        core = [["assign", V_("r1"), B_("*", V_("x2"), R_(2.0))],
                ["assign", A_("m2", V_("i"), V_("j")),
                 B_("+", A_("m2", V_("i"), V_("j")), V_("r1"))]]
    jlo = V_("i") if shape == "triangular" else I_(1)
    inner = ["do", "j", jlo, V_("n"), None, core]
    body = [inner]
    if shape == "stmt_after":
        body.append(["assign", A_("a", V_("i")), R_(2.0)])
    if shape == "stmt_before":
        body.insert(0, ["assign", A_("a", V_("i")), R_(2.0)])
    unit = scen._unit(rnd, [["do", "i", I_(1), V_("n"), None, body]])
    return unit, shape


def directed_batch(arg):
    """Every collapse-carrying directive on every nest shape, followed by
    the region transformation it needs."""
    from psyclone.errors import PSycloneError
    from psyclone.psyir.nodes import Loop, Directive
    from psyclone import transformations as T
    from psyclone.psyir import transformations as P
    part = Part()
    rnd = random.Random(arg["seed"])
    wd = tempfile.mkdtemp(prefix="vf_c10d_")
    loopers = [("OMPLoopTrans[%s]" % d,
                (lambda d=d: P.OMPLoopTrans(omp_directive=d)))
               for d in ("do", "paralleldo", "teamsdistributeparalleldo",
                         "loop")] + \
        [("OMPParallelLoopTrans", T.OMPParallelLoopTrans),
         ("ACCLoopTrans", T.ACCLoopTrans)]
    try:
        for n in range(arg["count"]):
            unit, shape = nest_program(rnd)
            text = flite.module_text(unit)
            for lname, lfac in loopers:
                for depth in (2, 3):
                    for wrap in (True, False):
                        tree = psy.read(text)
                        hist = []
                        try:
                            lfac().apply(tree.walk(Loop)[0],
                                         {"collapse": depth})
                            hist.append((lname, {"collapse": depth}))
                            part.count("accepted:" + lname.split("[")[0])
                        except PSycloneError:
                            part.count("refused")
                            continue
                        if wrap:
                            rt = T.ACCParallelTrans if lname.startswith(
                                "ACC") else T.OMPParallelTrans
                            try:
                                rt().apply(tree.walk(Directive)[0])
                                hist.append((rt.__name__, None))
                                part.count("accepted:" + rt.__name__)
                            except PSycloneError:
                                part.count("refused")
                                continue
                        if shape == "hoistable":
                            from psyclone.psyir.nodes import Assignment
                            try:
                                P.HoistTrans().apply(
                                    tree.walk(Loop)[1].walk(Assignment)[0])
                                hist.append(("HoistTrans", None))
                                part.count("accepted:HoistTrans")
                            except PSycloneError:
                                part.count("refused")
                        try:
                            out = psy.write(tree)
                        except PSycloneError:
                            part.count("writer_refused")
                            part.count("writer_refused:" + shape)
                            continue
                        part.count("directed_written:" + shape)
                        judge_written(part, wd, text, out, hist)
    finally:
        shutil.rmtree(wd, ignore_errors=True)
    return part


def batch(arg):
    part = Part()
    rnd = random.Random(arg["seed"])
    specs = make_transformations()
    wd = tempfile.mkdtemp(prefix="vf_c10_")
    try:
        for n in range(arg["count"]):
            x = rnd.random()
            if x < 0.5:
                name = rnd.choice(["chunk", "swap", "fuse", "dep", "hoist",
                                   "region", "reduction"])
                unit, _ = scen.make(name, rnd.random(), False)
            else:
                unit, _ = fgen.kernel_unit(rnd, {
                    "select": False, "where": False, "verb": False,
                    "nstmts": rnd.randint(2, 5)})
            text = flite.module_text(unit)
            for h in range(arg["histories"]):
                try:
                    out, hist, wref = run_history(text, rnd, specs,
                                                  arg["maxlen"], part)
                except Exception as err:
                    part.count("harness_error:" + type(err).__name__)
                    continue
                if out is None:
                    part.case(key=None, nontrivial=False)
                    continue
                judge_written(part, wd, text, out, hist)
    finally:
        shutil.rmtree(wd, ignore_errors=True)
    return part


def main(ctx):
    ctx.rule = ("random histories (<= 6 quick / <= 10 thorough) over 17 "
                "OpenMP/OpenACC/structural transformations with option "
                "variants (collapse 2/3, nowait, gang/vector, force) applied "
                "to random loops / statement ranges of generated kernels; a "
                "case = one history that was written; non-trivial = the text "
                "contains a directive; distinct by (source, history); plus "
                "directed histories: every collapse-carrying loop directive "
                "(depth 2, 3) on perfect / imperfect / triangular 2- and "
                "3-deep nests, with and without the enclosing region "
                "transformation")
    nb = 32 if ctx.quick else 160
    jobs = [{"seed": ctx.rng("b", i).random(), "count": 5 if ctx.quick else 20,
             "histories": 8 if ctx.quick else 12,
             "maxlen": 6 if ctx.quick else 10} for i in range(nb)]
    for res in ctx.pmap("vf.checks.c10", "batch", jobs, timeout=3400):
        if res:
            ctx.merge(res)
    djobs = [{"seed": ctx.rng("d", i).random(),
              "count": 3 if ctx.quick else 12} for i in range(16)]
    for res in ctx.pmap("vf.checks.c10", "directed_batch", djobs,
                        timeout=3400):
        if res:
            ctx.merge(res)
    if ctx.counters.get("monitor_evaluations", 0) == 0:
        ctx.inconclusive("no history produced code")
    ctx.assumptions += [
        "crashes (non-PSyclone exceptions) during a transformation are "
        "counted, not judged; gfortran 12 is the OpenMP/OpenACC-aware "
        "compiler; the structural rules are the property's three "
        "(enclosing parallel region, no nested parallel, collapse depth)"]
