"""C26 A rejected transformation leaves the code unchanged.

Monitor: around every attempt `T().apply(target, options)` that ends in a
TransformationError, the tree's deep fingerprint (node structure + every
symbol table) and, for generic PSyIR, the FortranWriter text are compared
before / after.  Every concrete Transformation class is tried on every node
(and on sibling node lists) of generated kernels and of LFRic / GOcean invoke
schedules with several option dictionaries; crash-point reach is measured as
the set of distinct `raise TransformationError` sites hit.
"""
import importlib
import inspect
import os
import pkgutil
import random
import traceback

from vf import fgen, flite, scen, psy
from vf.core import Part, REPO

PROPERTY = "C26"
LEVEL = "exploration"


def all_transformations():
    import psyclone
    from psyclone.psyGen import Transformation
    for m in pkgutil.walk_packages(psyclone.__path__, "psyclone."):
        if ".tests" in m.name:
            continue
        try:
            importlib.import_module(m.name)
        except Exception:
            pass

    def subs(c):
        r = set()
        for s in c.__subclasses__():
            r.add(s)
            r |= subs(s)
        return r
    out = []
    for c in sorted(subs(Transformation), key=lambda c: c.__name__):
        if inspect.isabstract(c) or ".tests" in c.__module__:
            continue
        try:
            c()
        except Exception:
            continue
        out.append(c)
    return out


def sym_view(table):
    rows = []
    for name, sym in table.symbols_dict.items():
        dt = getattr(sym, "datatype", None)
        try:
            dts = str(dt)
        except Exception:
            dts = type(dt).__name__
        iv = getattr(sym, "initial_value", None)
        try:
            ivs = iv.debug_string() if iv is not None else None
        except Exception:
            ivs = "?"
        rows.append((name, sym.name, type(sym).__name__, dts,
                     type(sym.interface).__name__, str(sym.visibility),
                     ivs))
    tags = sorted((t, s.name) for t, s in table.tags_dict.items())
    args = [s.name for s in table.argument_list]
    return (tuple(rows), tuple(tags), tuple(args))


def fingerprint(root):
    from psyclone.psyir.nodes import ScopingNode
    nodes = []
    for n in root.walk(object):
        try:
            desc = n.node_str(False)
        except Exception:
            desc = type(n).__name__
        nodes.append((type(n).__name__, desc, len(n.children),
                      tuple(sorted(getattr(n, "annotations", []) or []))))
    tables = []
    for n in root.walk(ScopingNode):
        st = n._symbol_table
        if st is not None:
            tables.append(sym_view(st))
    return (tuple(nodes), tuple(tables))


def fp_diff(a, b):
    """Short description of the first difference."""
    if len(a[0]) != len(b[0]):
        return "node count %d -> %d" % (len(a[0]), len(b[0]))
    for x, y in zip(a[0], b[0]):
        if x != y:
            return "node %s -> %s" % (x[:2], y[:2])
    for k, (x, y) in enumerate(zip(a[1], b[1])):
        if x != y:
            n1 = {r[0] for r in x[0]}
            n2 = {r[0] for r in y[0]}
            if n1 != n2:
                return "symbol table %d: added %s removed %s" % (
                    k, sorted(n2 - n1)[:6], sorted(n1 - n2)[:6])
            for r1, r2 in zip(x[0], y[0]):
                if r1 != r2:
                    return "symbol %s: %s -> %s" % (r1[0], r1[2:], r2[2:])
            return "symbol table %d: tags/arguments changed" % k
    return "?"


OPTION_SETS = [None, {}, {"chunksize": 0}, {"chunksize": -2}, {"tilesize": 0},
               {"force": False}, {"collapse": 5}, {"collapse": 2},
               {"region_name": ("a", "b")}, {"depth": 99},
               {"omp_schedule": "nonsense"}, {"reprod": True},
               {"nowait": True}, {"independent": False, "sequential": True},
               {"unknown_option": 1}, {"verbose": True},
               {"collapse": 2, "reprod": True}, {"collapse": 7, "reprod": True},
               {"collapse": 1}, {"tilesize": 3}, {"chunksize": 3},
               {"force": True, "collapse": 3}]


def raise_site(err):
    tb = traceback.extract_tb(err.__traceback__)
    for fr in reversed(tb):
        if "/psyclone/" in fr.filename and "/tests/" not in fr.filename:
            return "%s:%d" % (os.path.relpath(fr.filename, REPO), fr.lineno)
    return "?"


def preferred_target(cname):
    c = cname.lower()
    if "2code" in c or "2loop" in c and "array" not in c:
        return ("IntrinsicCall",)
    if "inline" in c or "kernel" in c:
        return ("Call", "Kern", "CodedKern")
    if "arrayassignment" in c or "hoisttrans" == c or "reference2" in c \
            or "arrayaccess" in c:
        return ("Assignment", "Reference")
    if any(x in c for x in ("loop", "omp", "acc", "chunk", "tiling",
                            "colour", "redundant", "induction")):
        return ("Loop",)
    return None


def attempt_all(root_factory, classes, part, rnd, budget, textual, tag):
    """root_factory() -> fresh tree.  Tries budget random (class, node,
    options) attempts, each on a fresh tree."""
    from psyclone.psyir.transformations import TransformationError
    sites = set()
    probe = root_factory()
    probe_nodes = probe.walk(object)
    nnodes = len(probe_nodes)
    for _ in range(budget):
        cls = rnd.choice(classes)
        k = rnd.randrange(nnodes)
        # type-aware targets: most transformations want a Loop, an
        # Assignment, a Call or an IntrinsicCall; give them one of those
        # (where the workload has one) 60% of the time so that refusals
        # deeper than the first type check are reached
        if rnd.random() < 0.6:
            want = preferred_target(cls.__name__)
            if want:
                idx = [i for i, n in enumerate(probe_nodes)
                       if type(n).__name__ in want or
                       any(b.__name__ in want for b in type(n).__mro__)]
                if idx:
                    k = rnd.choice(idx)
        opts = rnd.choice(OPTION_SETS)
        as_list = rnd.random() < 0.25
        tree = root_factory()
        nodes = tree.walk(object)
        if k >= len(nodes):
            continue
        node = nodes[k]
        target = node
        if as_list and node.parent is not None:
            sib = node.parent.children
            target = sib[node.position:node.position + rnd.randint(1, 3)]
        fp0 = fingerprint(tree)
        txt0 = None
        if textual:
            try:
                txt0 = psy.write(tree)
            except Exception:
                txt0 = None
            if fingerprint(tree) != fp0:
                part.count("writer_perturbed_tree")
                fp0 = fingerprint(tree)
        t = cls()
        try:
            if cls.__name__ in ("LoopFuseTrans", "GOceanLoopFuseTrans",
                                "LFRicLoopFuseTrans") and \
                    not isinstance(target, list) and node.parent is not None \
                    and node.position + 1 < len(node.parent.children):
                t.apply(node, node.parent.children[node.position + 1], opts)
            elif cls.__name__ == "MoveTrans" and node.parent is not None:
                t.apply(node, rnd.choice(nodes), opts)
            else:
                t.apply(target, opts)
            part.count("accepted")
            continue
        except TransformationError as err:
            part.count("refused")
            part.count("refused:" + cls.__name__)
            sites.add(raise_site(err))
            site = raise_site(err)
        except Exception as err:
            part.count("other_exception:" + type(err).__name__)
            continue
        fp1 = fingerprint(tree)
        desc = "%s on %s%s options %r" % (
            cls.__name__, type(node).__name__,
            "[list]" if isinstance(target, list) else "", opts)
        if fp1 != fp0:
            d = fp_diff(fp0, fp1)
            part.violation({
                "kind": "tree_changed_by_refused_transformation",
                "mechanism": diff_shape(fp0, fp1, tag),
                "what": "%s refused at %s but the PSyIR changed: %s" % (
                    desc, site, d),
                "workload": tag, "transformation": cls.__name__,
                "dedupe": (cls.__name__, d[:50])})
            continue
        if textual and txt0 is not None:
            try:
                txt1 = psy.write(tree)
            except Exception as err:
                txt1 = "writer raised %s" % type(err).__name__
            if txt1 != txt0:
                part.violation({
                    "kind": "written_code_changed_by_refused_transformation",
                    "mechanism": None,
                    "what": "%s refused at %s but the written code differs"
                            % (desc, site),
                    "workload": tag, "transformation": cls.__name__,
                    "dedupe": (cls.__name__, "text")})
    return sites


def diff_shape(fp0, fp1, tag):
    """Mechanism by the SHAPE of the difference: lazy materialisation on
    PSyKAl schedules = only symbols were added to tables and/or
    NOT_INITIALISED loop bounds were replaced; nothing removed, no node
    added or removed except bound literals turned into references."""
    if not tag.startswith("psykal"):
        return None
    n0, n1 = fp0[0], fp1[0]
    if len(n0) != len(n1):
        return None
    for x, y in zip(n0, n1):
        if x != y:
            if "NOT_INITIALISED" in x[1] and x[2] == y[2] == 0:
                continue
            return None
    for x, y in zip(fp0[1], fp1[1]):
        r0 = {r[0]: r for r in x[0]}
        r1 = {r[0]: r for r in y[0]}
        if set(r0) - set(r1):
            return None
        for k in r0:
            if r0[k] != r1[k]:
                return None
    return "refusal.lazy_lfric_materialisation"


def systematic(text, part, sites):
    """Every natural (transformation, target, option) attempt of the C05 /
    C06 / C07 engines on this kernel, each on a fresh tree, monitored the
    same way.  This reaches refusals that happen deep inside composite
    transformations (e.g. tiling = chunk + chunk + swap)."""
    from psyclone.psyir.transformations import TransformationError
    from vf.checks import c05, c06, c07
    from vf import xform
    tree0 = psy.read(text)
    atts = c05.attempts(tree0) + c06.attempts(tree0) + c07.attempts(tree0)
    # extra option variants for the composite ones
    from psyclone.psyir.nodes import Loop
    from psyclone.psyir import transformations as T
    for k, lp in enumerate(tree0.walk(Loop)):
        for ts in (1, 4, 5, 32):
            atts.append(xform.Attempt(
                "LoopTiling2DTrans", "loop%d" % k, {"tilesize": ts},
                lambda t, k=k, ts=ts: T.LoopTiling2DTrans().apply(
                    t.walk(Loop)[k], {"tilesize": ts})))
    # my own two-step composite attempt is not ONE transformation: skip it
    atts = [a for a in atts if "+" not in a.tname]
    for a in atts:
        tree = psy.read(text)
        again = [b for b in (c05.attempts(tree) + c06.attempts(tree) +
                             c07.attempts(tree))
                 if (b.tname, b.target_desc, repr(b.options)) ==
                 (a.tname, a.target_desc, repr(a.options))]
        fn = again[0].apply_fn if again else a.apply_fn
        fp0 = fingerprint(tree)
        try:
            txt0 = psy.write(tree)
        except Exception:
            txt0 = None
        try:
            fn(tree)
            part.count("accepted")
            continue
        except TransformationError as err:
            part.count("refused")
            part.count("refused:" + a.tname)
            site = raise_site(err)
            sites.add(site)
        except Exception as err:
            part.count("other_exception:" + type(err).__name__)
            continue
        fp1 = fingerprint(tree)
        desc = "%s on %s options %r" % (a.tname, a.target_desc, a.options)
        if fp1 != fp0:
            part.violation({
                "kind": "tree_changed_by_refused_transformation",
                "mechanism": None,
                "what": "%s refused at %s but the PSyIR changed: %s" % (
                    desc, site, fp_diff(fp0, fp1)),
                "workload": "generic-systematic", "source": text,
                "transformation": a.tname,
                "dedupe": (a.tname, fp_diff(fp0, fp1)[:50])})
        elif txt0 is not None:
            try:
                txt1 = psy.write(tree)
            except Exception as err:
                txt1 = "writer raised %s" % type(err).__name__
            if txt1 != txt0:
                part.violation({
                    "kind": "written_code_changed_by_refused_transformation",
                    "mechanism": None,
                    "what": "%s refused at %s but the written code differs"
                            % (desc, site),
                    "workload": "generic-systematic", "source": text,
                    "transformation": a.tname,
                    "dedupe": (a.tname, "text")})


def generic_batch(arg):
    part = Part()
    rnd = random.Random(arg["seed"])
    classes = all_transformations()
    part.count("transformation_classes", 0)
    sites = set()
    for n in range(arg["count"]):
        x = rnd.random()
        if x < 0.5:
            name = rnd.choice(sorted(scen.SCENARIOS))
            unit, _ = scen.make(name, rnd.random(), rnd.random() < 0.5)
        else:
            unit, _ = fgen.kernel_unit(rnd, {"nstmts": rnd.randint(2, 5),
                                             "verb": True})
        text = flite.module_text(unit)
        try:
            psy.read(text)
        except Exception:
            continue
        sites |= attempt_all(lambda: psy.read(text), classes, part, rnd,
                             arg["attempts"], True, "generic")
        try:
            systematic(text, part, sites)
        except Exception as err:
            part.count("systematic_harness_error:" + type(err).__name__)
        part.case(key=text, nontrivial=True,
                  sample=text[:600] if n == 0 else None)
    part.d["sites"] = sorted(sites)
    part.d["nclasses"] = len(classes)
    return part


PSYKAL = [("lfric", "1_single_invoke.f90"), ("lfric", "4_multikernel_invokes.f90"),
          ("lfric", "15.14.4_builtin_and_normal_kernel_invoke.f90"),
          ("lfric", "19.1_single_stencil.f90"),
          ("lfric", "4.8_multikernel_invokes.f90"),
          ("gocean1.0", "single_invoke_three_kernels.f90"),
          ("gocean1.0", "single_invoke.f90")]


def psykal_factory(api, fname, dm):
    from psyclone.configuration import Config
    from psyclone.parse.algorithm import parse
    from psyclone.psyGen import PSyFactory
    base = os.path.join(REPO, "src/psyclone/tests/test_files",
                        "dynamo0p3" if api == "lfric" else "gocean1p0")
    Config.get().api = api
    _, info = parse(os.path.join(base, fname), api=api)

    def make():
        Config.get().api = api
        psy_obj = PSyFactory(api, distributed_memory=dm).create(info)
        return psy_obj.invokes.invoke_list[0].schedule
    return make


def psykal_batch(arg):
    part = Part()
    rnd = random.Random(arg["seed"])
    classes = all_transformations()
    sites = set()
    for api, fname in arg["files"]:
        for dm in ([False, True] if api == "lfric" else [False]):
            try:
                make = psykal_factory(api, fname, dm)
                make()
            except Exception as err:
                part.count("psykal_setup_failed:" + type(err).__name__)
                continue
            sites |= attempt_all(make, classes, part, rnd, arg["attempts"],
                                 False, "psykal:%s" % api)
            part.case(key=(api, fname, dm), nontrivial=True,
                      sample="%s %s dm=%s" % (api, fname, dm))
    part.d["sites"] = sorted(sites)
    part.d["nclasses"] = len(classes)
    return part


def count_raise_sites():
    """AST scan of the sources: number of `raise TransformationError`."""
    import ast
    n = 0
    for root, _, files in os.walk(os.path.join(REPO, "src/psyclone")):
        if "/tests" in root:
            continue
        for f in files:
            if not f.endswith(".py"):
                continue
            try:
                tree = ast.parse(open(os.path.join(root, f)).read())
            except Exception:
                continue
            for node in ast.walk(tree):
                if isinstance(node, ast.Raise) and node.exc is not None:
                    c = node.exc
                    fn = getattr(c, "func", c)
                    name = getattr(fn, "id", getattr(fn, "attr", ""))
                    if name == "TransformationError":
                        n += 1
    return n


def suite_under_monitor(ctx):
    """Thorough tier: the repository's own suite with the E4 monitor on."""
    from vf import suite
    res = suite.run_suite("c26")
    if res is None:
        ctx.inconclusive("suite-under-monitor run did not complete")
        return
    for k, v in res["events"].items():
        ctx.count("suite:" + k, v)
    ctx.extra["suite_summary"] = res["summary"]
    ctx.extra["suite_failed_tests"] = res.get("failed_tests")
    for f in res["firings"]:
        if f["property"] != "C26":
            continue
        ctx.violation({"kind": "tree_changed_by_refused_transformation",
                       "mechanism": f.get("mechanism"),
                       "what": "suite-under-monitor: %s [%s]" % (
                           f["what"], f["test"]),
                       "test": f["test"],
                       "dedupe": (f["kind"], f.get("op"),
                                  f.get("transformation"),
                                  f.get("mechanism"))})


def main(ctx):
    ctx.rule = ("(class, node or sibling list, option dict) attempts, each on "
                "a fresh tree: every concrete Transformation class x every "
                "node of generated kernels (all scenario generators + generic) "
                "and of LFRic/GOcean invoke schedules (dm on/off) x 15 option "
                "dictionaries incl. invalid values; a case = one workload "
                "tree; the monitor fires only after a TransformationError; "
                "distinct by source text / (api, file, dm)")
    nb = 16 if ctx.quick else 120
    jobs = [{"seed": ctx.rng("g", i).random(), "count": 2 if ctx.quick else 8,
             "attempts": 80 if ctx.quick else 600} for i in range(nb)]
    sites = set()
    ncls = 0
    for res in ctx.pmap("vf.checks.c26", "generic_batch", jobs, timeout=3400):
        if res:
            sites |= set(res.pop("sites", []))
            ncls = max(ncls, res.pop("nclasses", 0))
            ctx.merge(res)
    pj = []
    for i, f in enumerate(PSYKAL):
        for r in range(1 if ctx.quick else 4):
            pj.append({"seed": ctx.rng("p", i, r).random(), "files": [f],
                       "attempts": 90 if ctx.quick else 800})
    for res in ctx.pmap("vf.checks.c26", "psykal_batch", pj, timeout=3400):
        if res:
            sites |= set(res.pop("sites", []))
            ncls = max(ncls, res.pop("nclasses", 0))
            ctx.merge(res)
    total = count_raise_sites()
    ctx.extra["transformation_classes_tried"] = ncls
    ctx.extra["distinct_refusal_sites_hit"] = len(sites)
    ctx.extra["raise_TransformationError_sites_in_source"] = total
    ctx.extra["refusal_sites_sample"] = sorted(sites)[:40]
    if not ctx.quick:
        suite_under_monitor(ctx)
    if ctx.counters.get("refused", 0) == 0:
        ctx.inconclusive("no transformation was refused")
    ctx.assumptions += [
        "fingerprint = node types/descriptions/annotations in pre-order + "
        "every symbol table (name, class, datatype, interface, visibility, "
        "initial value, tags, argument order)",
        "exceptions other than TransformationError are counted, not judged"]
