"""C07 Inlining a call preserves the caller's behaviour.

Oracle: as C05 (vf.xform differential execution) for InlineTrans applied to
every call (subroutine and function) of generated caller/callee pairs.
"""
import random
import tempfile

from vf import flite, diffrun, scen, xform
from vf.core import Part
from vf.checks import c05

PROPERTY = "C07"
LEVEL = "exploration"


def attempts(tree):
    from psyclone.psyir.nodes import Call, IntrinsicCall
    from psyclone.psyir.transformations import InlineTrans
    out = []
    calls = [c for c in tree.walk(Call) if not isinstance(c, IntrinsicCall)]
    for k, call in enumerate(calls):
        def f(t, k=k):
            cs = [c for c in t.walk(Call) if not isinstance(c, IntrinsicCall)]
            InlineTrans().apply(cs[k])
        out.append(xform.Attempt("InlineTrans", "call%d:%s" % (
            k, call.routine.name), {}, f))
    return out


def batch(arg):
    part = Part()
    rnd = random.Random(arg["seed"])
    wd = tempfile.mkdtemp(prefix="vf_c07_")
    inputs = diffrun.INPUTS[:arg["ninputs"]]
    saved = c05.attempts
    c05.attempts = attempts
    try:
        for n in range(arg["count"]):
            sseed = rnd.random()
            hazard_on = rnd.random() < 0.3
            unit, hz = scen.make("inline", sseed, hazard_on)
            twin_fn = (lambda sseed=sseed: scen.make("inline", sseed,
                                                     False)[0])
            nt = c05.judge_unit(unit, wd, part, inputs, rnd, hz, twin_fn,
                                "scen:inline")
            part.case(key=flite.module_text(unit), nontrivial=nt,
                      sample={"hazard": hz,
                              "module": flite.module_text(unit)[:1500]}
                      if n == 0 else None)
    finally:
        c05.attempts = saved
        diffrun.cleanup(wd)
    return part


def main(ctx):
    ctx.rule = ("caller/callee pairs in one module: subroutine with scalar "
                "inout, index inout, explicit-shape array and size "
                "arguments called with element/scalar/whole-array/section "
                "actuals (30% with the planted element+index hazard), locals "
                "whose names clash with caller names, and a function used "
                "inside an expression with an expression actual; InlineTrans "
                "on every call; accepted results compiled and run on inputs "
                "incl. n=0,1; distinct by module text")
    nb = 32 if ctx.quick else 160
    cnt = 8 if ctx.quick else 40
    jobs = [{"seed": ctx.rng("b", i).random(), "count": cnt,
             "ninputs": 5 if ctx.quick else 8} for i in range(nb)]
    for res in ctx.pmap("vf.checks.c07", "batch", jobs, timeout=3400):
        if res:
            ctx.merge(res)
    acc = ctx.counters.get("accepted:InlineTrans", 0)
    ctx.extra["accepted_applications"] = acc
    ctx.extra["traces_validated_against_impl"] = ctx.counters.get(
        "interp_validated_runs", 0)
    if acc == 0:
        ctx.inconclusive("InlineTrans never accepted a call")
